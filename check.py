#!/venv/bin/python
"""Runner: `check.py <Cxx> --tier quick|thorough [--replay FILE]`  (see DESIGN.md 3.1).

Exit 0: property held on everything explored (known findings are printed, not failed).
Exit 1: `VIOLATION property=<id> replay=<path>` for a violation not in known_findings.json.
Exit 2: harness error (never reported as a violation).
"""
import argparse
import importlib
import json
import os
import subprocess
import sys
import tempfile
import time

HERE = os.path.dirname(os.path.abspath(__file__))
sys.path.insert(0, HERE)
from vlib import env  # noqa: E402

NPROC = int(os.environ.get("VERIF_NPROC", "16"))


def load_meta(prop):
    """Import the property module in the parent (for plan + evidence metadata)."""
    e = env.worker_env()
    for k in ("NUMBA_CACHE_DIR", "NUMBA_NUM_THREADS", "PYTHONWARNINGS", env.GUARD, "VERIF_REPO"):
        os.environ[k] = e[k]
    sys.path.insert(0, env.REPO)
    import warnings

    warnings.filterwarnings("ignore")
    env.install_in_worker()
    return importlib.import_module(f"vlib.props.{prop.lower()}")


def assign(items, subs, nproc):
    """Greedy longest-processing-time assignment of work items to nproc workers."""
    cost = []
    for i, (name, variant, r, nrep, nex) in enumerate(items):
        sub = subs[name]
        if variant in sub.cost:
            cost.append((sub.cost[variant] / nrep + 5, i))
        else:
            cost.append((nex * sub.weight * 0.02 + 10, i))
    # items whose sub-check needs a special process environment get dedicated workers
    special = {}
    plain = []
    for c, i in cost:
        e = subs[items[i][0]].env
        if e:
            special.setdefault(json.dumps(e, sort_keys=True), []).append(i)
        else:
            plain.append((c, i))
    nplain = max(1, nproc - len(special))
    plain.sort(reverse=True)
    loads = [0.0] * nplain
    bins = [[] for _ in range(nplain)]
    for c, i in plain:
        j = loads.index(min(loads))
        loads[j] += c
        bins[j].append(i)
    return [sorted(b) for b in bins if b] + [sorted(v) for v in special.values()]


def run_workers(prop, tier, seed, bins, subs_env):
    tmp = tempfile.mkdtemp(prefix=f"verif_{prop}_", dir=os.path.join(HERE, ".cache"))
    procs = []
    # wall-clock budget: workers stop starting new cases at 80% of it (cooperative, results kept); a worker still running
    # at 100% is killed.  Either way the outcome is "inconclusive for what was not run", never a violation or an error.
    budget = float(os.environ.get("VERIF_WALL_BUDGET", "1500" if tier == "quick" else "7200"))
    t_launch = time.time()
    for k, b in enumerate(bins):
        out = os.path.join(tmp, f"w{k}.json")
        cmd = [env.PY, "-m", "vlib.worker", prop, "--tier", tier, "--seed", str(seed),
               "--items", ",".join(map(str, b)), "--out", out]
        e = env.worker_env(extra=subs_env.get(k))
        e["VERIF_BREADCRUMB"] = os.path.join(tmp, f"w{k}.crumb")
        e["VERIF_DEADLINE"] = repr(t_launch + 0.8 * budget)
        if os.environ.get("VERIF_FAIL_FAST"):
            # sensitivity sweeps: every worker winds down as soon as one of them has saved a violation
            e["VERIF_STOP_FILE"] = os.path.join(tmp, "FOUND")
        log = open(os.path.join(tmp, f"w{k}.log"), "w")
        procs.append((subprocess.Popen(cmd, cwd=HERE, env=e, stdout=log, stderr=subprocess.STDOUT), out, log, k))
    results = []
    t_start = t_launch
    for p, out, log, k in procs:
        try:
            rc = p.wait(timeout=max(1.0, budget - (time.time() - t_start)))
        except subprocess.TimeoutExpired:
            # time budget hit: inconclusive for this worker, never a violation
            p.kill()
            p.wait()
            rc = 3
            print(f"note: worker {k} exceeded the wall-clock budget of {budget:.0f}s and was stopped (inconclusive)")
            if not os.path.exists(out):
                json.dump(dict(status="ok", notes=[f"worker {k} stopped 0.0s"], budget_killed=True), open(out, "w"))
        log.close()
        if os.path.exists(out):
            r = json.load(open(out))
        else:
            tail = open(log.name).read()[-1500:]
            crumb = os.path.join(tmp, f"w{k}.crumb")
            if -rc in (4, 6, 7, 8, 11) and os.path.exists(crumb):
                # the process was killed by a signal while running a case: that case is the finding
                from vlib import core

                c = json.load(open(crumb))
                v = core.Violation(f"crash:signal{-rc}", f"worker process died with signal {-rc} while running this case")
                path = core.save_replay(prop, c["sub"], c["case"], v)
                r = dict(status="ok", failures=[dict(sub=c["sub"], variant="-", bucket=f"{c['sub']}|{v.kind}", kind=v.kind,
                                                     message=v.msg, replay=path, case=c["case"])],
                         notes=[f"worker {k} crashed rc={rc} 0.0s"])
            else:
                r = dict(status="harness_error", error=f"worker {k} died rc={rc}: {tail}")
        if r.get("status") == "stalled":
            # inconclusive, never a violation: keep the partial results, save the case for inspection
            sc = r.get("stalled_case") or {}
            d_ = os.path.join(HERE, "replays", prop)
            os.makedirs(d_, exist_ok=True)
            sp = os.path.join(d_, f"stalled-w{k}.json")
            json.dump(dict(property=prop, sub=sc.get("sub"), case=sc.get("case"), kind="stalled", message="no progress within the case time limit"), open(sp, "w"))
            r["status"] = "ok"
            r.setdefault("notes", []).append(f"worker {k} stalled 0.0s")
            print(f"note: a worker made no progress on one case within the time limit (inconclusive, not a violation); case saved to {sp}")
        elif rc not in (0, 2) and r.get("status") == "ok" and not (rc < 0 and r.get("failures")) and not r.get("budget_killed"):
            r["status"] = "harness_error"
            r["error"] = f"worker {k} rc={rc}"
        results.append(r)
    import shutil

    shutil.rmtree(tmp, ignore_errors=True)
    return results


def replay_one(prop, path):
    os.makedirs(os.path.join(HERE, ".cache"), exist_ok=True)
    fd, out = tempfile.mkstemp(prefix="replay_", suffix=".json", dir=os.path.join(HERE, ".cache"))
    os.close(fd)
    cmd = [env.PY, "-m", "vlib.worker", prop, "--replay", path, "--out", out]
    extra = None
    try:
        # a sub-check may need its own process environment (e.g. NUMBA_BOUNDSCHECK=1)
        sub_name = json.load(open(path)).get("sub")
        extra = next((s.env for s in load_meta(prop).SUBS if s.name == sub_name), None)
    except Exception:
        pass
    try:
        p = subprocess.run(cmd, cwd=HERE, env=env.worker_env(extra=extra), capture_output=True, text=True, timeout=1200)
    except subprocess.TimeoutExpired:
        os.unlink(out)
        return dict(error="replay did not finish within 1200s (inconclusive)")
    try:
        r = json.load(open(out))
    except Exception:
        if p.returncode < 0:
            r = dict(failed=True, kind=f"crash:signal{-p.returncode}", message="replay process died", known=None)
        else:
            r = dict(error=(p.stdout + p.stderr)[-3000:])
    os.unlink(out)
    return r


def main():
    ap = argparse.ArgumentParser()
    ap.add_argument("prop")
    ap.add_argument("--tier", default=os.environ.get("VERIF_TIER", "quick"))
    ap.add_argument("--replay", default=None)
    ap.add_argument("--no-evidence", action="store_true")
    ap.add_argument("--regress-only", action="store_true", help="replay the committed regression cases only (seconds)")
    a = ap.parse_args()
    prop = a.prop.upper()
    tier = a.tier if a.tier in ("quick", "thorough") else "quick"
    seed = int(os.environ.get("VERIF_SEED", "1") or 1)
    os.makedirs(os.path.join(HERE, ".cache"), exist_ok=True)
    t0 = time.time()

    if a.replay:
        r = replay_one(prop, a.replay)
        if "error" in r:
            print("HARNESS-ERROR", r["error"])
            return 2
        if r["failed"] and not r.get("known"):
            print(f"replay fails: {r['kind']}: {r['message']}")
            print(f"VIOLATION property={prop} replay={a.replay}")
            return 1
        print("replay passes" if not r["failed"] else f"replay fails with known finding {r['known']}")
        return 0

    import shutil

    shutil.rmtree(os.path.join(HERE, "replays", prop), ignore_errors=True)
    mod = load_meta(prop)
    from vlib import core, worker

    subs = {s.name: s for s in mod.SUBS}
    items = worker.plan(mod, tier)
    bins = assign(items, subs, NPROC)
    # per-worker extra environment (e.g. NUMBA_BOUNDSCHECK shard): taken from the first item's sub
    subs_env = {}
    for k, b in enumerate(bins):
        envs = [subs[items[i][0]].env for i in b]
        if envs and all(e == envs[0] for e in envs) and envs[0]:
            subs_env[k] = envs[0]

    # 1. regression replays (seconds)
    reg_dir = os.path.join(HERE, "regressions", prop)
    reg_results = []
    violations = []
    harness_errors = []
    known_confirmed = set()
    if os.path.isdir(reg_dir):
        files = sorted(f for f in os.listdir(reg_dir) if f.endswith(".json"))
        if files:
            fd, out = tempfile.mkstemp(prefix="reg_", suffix=".json", dir=os.path.join(HERE, ".cache"))
            os.close(fd)
            done = []
            # the replay process may die inside native code (a crash is a violation of the replayed case, not a
            # harness error): results are written after every case, and the run resumes behind a case that crashed
            for _attempt in range(len(files) + 1):
                cmd = [env.PY, "-m", "vlib.regress", prop, reg_dir, out]
                wenv = dict(env.worker_env(), VERIF_REGRESS_SKIP=json.dumps(done))
                try:
                    p = subprocess.run(cmd, cwd=HERE, env=wenv, capture_output=True, text=True, timeout=900)
                except subprocess.TimeoutExpired as te:
                    p = te
                    p.stdout, p.stderr, p.returncode = "", "regression replays did not finish within 900s", 1
                try:
                    part = json.load(open(out))
                except Exception:
                    part = []
                cur = None
                if os.path.exists(out + ".cur"):
                    cur = open(out + ".cur").read().strip() or None
                    os.unlink(out + ".cur")
                reg_results.extend(part)
                done.extend(r["file"] for r in part)
                if p.returncode in (-4, -6, -7, -8, -11) and cur and cur not in done:
                    rec = json.load(open(os.path.join(reg_dir, cur)))
                    reg_results.append(dict(file=cur, sub=rec.get("sub"), failed=True, kind=f"crash:signal{-p.returncode}",
                                            message="the replay process died while running this case", known=None))
                    done.append(cur)
                    open(out, "w").write("[]")
                    continue
                if p.returncode != 0 or len(done) < len(files):
                    harness_errors.append("regressions: " + (p.stdout + p.stderr)[-2000:])
                break
            os.unlink(out)
            for r in reg_results:
                if r.get("error"):
                    harness_errors.append(f"regression {r['file']}: {r['error']}")
                elif r["failed"] and r.get("known"):
                    known_confirmed.add(r["known"])
                elif r["failed"]:
                    violations.append(dict(sub=r["sub"], kind=r["kind"], message=r["message"], from_regression=True,
                                           replay=os.path.join(reg_dir, r["file"]), bucket=f"{r['sub']}|{r['kind']}"))

    # 2. generated search
    results = [] if a.regress_only else run_workers(prop, tier, seed, bins, subs_env)
    merged = dict(evaluations=0, classes={}, nontrivial=set(), nontrivial_constructed=0, samples=[],
                  known_hits={}, rejected={}, exhaustive=[], per_sub={}, notes=[])
    for r in results:
        if r.get("status") != "ok":
            harness_errors.append(r.get("error") or "unknown worker error")
        for key in ("classes", "known_hits", "rejected", "per_sub"):
            for k, v in (r.get(key) or {}).items():
                merged[key][k] = merged[key].get(k, 0) + v
        merged["evaluations"] += r.get("evaluations", 0)
        merged["nontrivial"].update(r.get("nontrivial", []))
        merged["nontrivial_constructed"] += r.get("nontrivial_constructed", 0)
        merged["exhaustive"].extend(r.get("exhaustive", []))
        merged["notes"].extend(r.get("notes", []))
        for s in r.get("samples", []):
            if len(merged["samples"]) < 12:
                merged["samples"].append(s)
        violations.extend(r.get("failures", []))

    # one VIOLATION line per bucket (smallest case)
    by_bucket = {}
    for v in violations:
        b = v["bucket"]
        if b not in by_bucket or len(json.dumps(v.get("case"), default=str)) < len(json.dumps(by_bucket[b].get("case"), default=str)):
            by_bucket[b] = v

    # a VIOLATION line promises a replay file that fails: every bucket found by the generated search is re-run from its
    # saved input in a fresh process; what does not reproduce there (twice) is reported as an unconfirmed note instead
    unconfirmed = []
    if by_bucket:
        from concurrent.futures import ThreadPoolExecutor

        def confirm(item):
            b, v = item
            if v.get("from_regression") or not v.get("replay") or not os.path.exists(v["replay"]):
                return b, "confirmed", None
            r = {}
            for _ in range(2):
                r = replay_one(prop, v["replay"])
                if r.get("failed"):
                    return b, ("known" if r.get("known") else "confirmed"), r
                if "error" in r:
                    return b, "confirmed", r  # the replay itself could not be run: keep what the worker observed
            return b, "unconfirmed", r

        with ThreadPoolExecutor(max_workers=8) as ex:
            for b, verdict, r in list(ex.map(confirm, list(by_bucket.items()))):
                if verdict == "unconfirmed":
                    v = by_bucket.pop(b)
                    unconfirmed.append(dict(bucket=b, message=v.get("message", "")[:300], replay=v["replay"]))
                elif verdict == "known":
                    by_bucket.pop(b)
                    merged["known_hits"][r["known"]] = merged["known_hits"].get(r["known"], 0) + 1

    known = core.active_known(prop)
    for f in known:
        hits = merged["known_hits"].get(f["key"], 0)
        conf = "confirmed by regression replay" if f["key"] in known_confirmed else "not re-confirmed by a regression replay"
        if f["key"] in known_confirmed or hits:
            print(f"KNOWN-FINDING: property={prop} {f['what']} [key={f['key']}; {hits} generated cases hit it; {conf}]")
        else:
            print(f"note: listed finding {f['key']} for {prop} was not reproduced in this run")

    wall = time.time() - t0
    distinct = len(merged["nontrivial"]) + merged["nontrivial_constructed"]
    exhaustive_all = bool(merged["exhaustive"]) and getattr(mod, "ALL_EXHAUSTIVE", False)
    budget_notes = [n_ for n_ in merged["notes"] if "budget" in n_ or " stopped " in n_]
    evidence = dict(
        property_id=prop, tier=tier, seed=seed, level="exploration", wall_s=round(wall, 2),
        violations=len(by_bucket),
        coverage=dict(
            evaluations=merged["evaluations"], distinct_nontrivial=distinct,
            rule=mod.RULE, samples=merged["samples"] or [{"note": "no non-trivial sample recorded"}],
            exhaustive=exhaustive_all,
            exhaustive_subspaces=merged["exhaustive"],
            class_histogram=dict(sorted(merged["classes"].items())),
            per_subcheck_evaluations=merged["per_sub"],
            known_finding_hits=merged["known_hits"],
            rejected_input_classes=merged["rejected"],
            regressions_replayed=len(reg_results),
            work_items=len(items), workers=len(bins),
            harness_errors=len(harness_errors),
            wall_clock_budget_notes=budget_notes,
            unconfirmed_failures=unconfirmed,
            engine="hypothesis %s + enumeration" % __import__("hypothesis").__version__,
            oracle=getattr(mod, "ORACLE", ""),
        ),
        assumptions=list(getattr(mod, "ASSUMPTIONS", [])) + [
            "CPython/NumPy scalar arithmetic, fractions and Hypothesis are trusted",
            "checks import groupby_lib from %s working tree; numba cache keyed on a hash of all sources" % env.REPO,
        ],
    )
    if not a.no_evidence and not a.regress_only:
        os.makedirs(os.path.join(HERE, "evidence"), exist_ok=True)
        with open(os.path.join(HERE, "evidence", f"{prop}.json"), "w") as fh:
            json.dump(evidence, fh, indent=1, sort_keys=True, default=core.jdefault)

    if os.environ.get("VERIF_VERBOSE"):
        for n_ in merged["notes"]:
            print("   ", n_)
    for n_ in budget_notes[:8]:
        print("note:", n_)
    for u in unconfirmed:
        print(f"note: unconfirmed failure [{u['bucket']}] did not reproduce from its saved input in a fresh process (2 attempts), "
              f"not reported as a violation; input kept at {u['replay']}: {u['message'][:200]}")
    print(f"{prop} tier={tier} seed={seed}: {merged['evaluations']} evaluations, {distinct} distinct non-trivial, "
          f"{len(by_bucket)} violation bucket(s), {len(harness_errors)} harness error(s), {wall:.0f}s")
    for b, v in sorted(by_bucket.items()):
        print(f"  violation [{b}] {v.get('message', '')[:300]}")
        print(f"VIOLATION property={prop} replay={v['replay']}")
    for h in harness_errors[:5]:
        print("HARNESS-ERROR", h[-3000:])
    if by_bucket:
        return 1
    if harness_errors:
        return 2
    return 0


if __name__ == "__main__":
    _rc = main()
    sys.stdout.flush()
    sys.stderr.flush()
    os._exit(_rc or 0)  # skip interpreter teardown (native thread pools have been seen to hang there)
