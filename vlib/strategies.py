"""Hypothesis strategies producing JSON-able logical datasets (see vlib.data for the format).

Everything is constructive (no assume/filter): shapes that matter are forced through explicit
'shape' draws, and every draw is a plain python value so cases serialise to replay files."""
from hypothesis import strategies as st

DT_BASE = 1_500_000_000  # seconds; 2017
KEY_TYPES = ("int", "float", "str", "bool", "dt", "cat")


def label_alphabet(draw, t, k):
    """k pairwise distinct labels of logical type t, in a random (unsorted) order."""
    if t == "int":
        pool = draw(st.sampled_from([
            list(range(-3, 10)), [2**53 + 1, 2**53 + 2, -2**62, 7, 0, 2**62, 5, -1, 3, 11],
            [10, 9, 8, 7, 6, 5, 4, 3, 2, 1]]))
    elif t == "float":
        pool = [0.5, -1.25, 3.0, 1e300, -1e-300, float("inf"), 2.0, -float("inf"), 0.0, 7.75]
    elif t == "str":
        pool = ["b", "a", "", "zz", "A", "é", "a b", "10", "9", "Z"]
    elif t == "bool":
        pool = [False, True]
    elif t == "dt":
        pool = [DT_BASE + 86400 * i for i in (5, 1, 9, 3, 0, 7, 2, 8)]
    elif t == "cat":
        pool = draw(st.sampled_from([["lo", "mid", "hi", "x", "y", "w"], ["c", "a", "b", "e", "d", "f"], [3, 1, 2, 9, 7, 5]]))
    else:
        raise ValueError(t)
    k = min(k, len(pool))
    perm = draw(st.permutations(pool))
    return list(perm[:k])


@st.composite
def key_column(draw, n, types=KEY_TYPES, allow_null=True, max_labels=6, name=None, shape=None):
    t = draw(st.sampled_from(list(types)))
    k = draw(st.integers(1, max_labels))
    labels = label_alphabet(draw, t, k)
    k = len(labels)
    spec = {"t": t, "name": name}
    if t == "cat":
        # categories in an explicit (non lexical) order, possibly with unused ones
        spec["cats"] = list(labels)
        spec["ordered"] = draw(st.booleans())
        used = draw(st.integers(1, k))
        labels = draw(st.permutations(labels))[:used]
        k = used
    if t == "dt":
        spec["unit"] = draw(st.sampled_from(["ns", "ns", "s", "us", "ms"]))
        mult = {"ns": 10**9, "us": 10**6, "ms": 10**3, "s": 1}[spec["unit"]]
        labels = [x * mult for x in labels]
    shape = shape or draw(st.sampled_from(["random", "random", "random", "sorted", "blocks", "single", "sorted_prefix"]))
    if shape == "single":
        idx = [0] * n
    elif shape == "sorted" and t not in ("cat",):
        order = sorted(range(k), key=lambda i: (labels[i] if t != "bool" else int(labels[i])))
        raw = sorted(draw(st.lists(st.integers(0, k - 1), min_size=n, max_size=n)))
        idx = [order[i] for i in raw]
    elif shape == "blocks":
        # each label confined to one contiguous block of rows (group absent from other blocks)
        raw = sorted(draw(st.lists(st.integers(0, k - 1), min_size=n, max_size=n)))
        perm = draw(st.permutations(list(range(k))))
        idx = [perm[i] for i in raw]
    elif shape == "sorted_prefix" and t not in ("cat",):
        order = sorted(range(k), key=lambda i: (labels[i] if t != "bool" else int(labels[i])))
        cut = draw(st.integers(n // 4, n)) if n else 0
        head = sorted(draw(st.lists(st.integers(0, k - 1), min_size=cut, max_size=cut)))
        tail = draw(st.lists(st.integers(0, k - 1), min_size=n - cut, max_size=n - cut))
        idx = [order[i] for i in head] + tail
    else:
        idx = draw(st.lists(st.integers(0, k - 1), min_size=n, max_size=n))
    vals = [labels[i] for i in idx]
    if allow_null and t not in ("bool", "int") and n:
        mode = draw(st.sampled_from(["none", "none", "some", "some", "one", "all"]))
        if mode == "some":
            nulls = draw(st.lists(st.booleans(), min_size=n, max_size=n))
        elif mode == "one":
            p = draw(st.integers(0, n - 1))
            nulls = [i == p for i in range(n)]
        elif mode == "all":
            nulls = [True] * n
        else:
            nulls = [False] * n
        vals = [None if z else v for v, z in zip(vals, nulls)]
    spec["vals"] = vals
    if t == "int" and vals and all(isinstance(v, int) and 0 <= v <= 100 for v in vals):
        # small non-negative labels: held in a narrow / unsigned integer dtype in part of the cases (same logical keys)
        dt = draw(st.sampled_from(["int64", "int64", "int64", "uint8", "uint32", "uint64", "int16"]))
        if dt != "int64":
            spec["dtype"] = dt
    return spec


VAL_DTYPES = ("float64", "float32", "int64", "int32", "int16", "int8", "uint8", "uint16", "uint32", "uint64",
              "bool", "M8[ns]", "M8[s]", "m8[ns]", "tz:US/Eastern:ns")


@st.composite
def value_column(draw, n, dtypes=VAL_DTYPES, regime="exact", name=None, null_modes=None):
    dtype = draw(st.sampled_from(list(dtypes)))
    spec = {"dtype": dtype, "name": name}
    if dtype.startswith("float"):
        if regime == "exact":
            elem = st.integers(-4096, 4096).map(lambda k: k / 8)
        else:
            lim = 1e30 if dtype == "float64" else 1e6
            elem = st.floats(min_value=-lim, max_value=lim, allow_nan=False, allow_infinity=False,
                             width=64 if dtype == "float64" else 32)
        nullable = True
    elif dtype == "bool":
        elem = st.booleans()
        nullable = False
    elif dtype.startswith(("M8", "m8", "tz:")):
        unit = dtype.split(":")[2] if dtype.startswith("tz:") else dtype[3:-1]
        mult = {"ns": 10**9, "us": 10**6, "ms": 10**3, "s": 1}[unit]
        if dtype.startswith("m8"):
            elem = st.integers(-10**6, 10**6).map(lambda k: k * 7)
        else:
            # includes sub-second digits so that ns exactness matters
            elem = st.integers(0, 10**7).map(lambda k: DT_BASE * mult + k * 1_000_003 % (10**5 * mult))
        nullable = True
    else:
        import numpy as np

        info = np.iinfo(dtype)
        if dtype == "int64":
            elem = st.one_of(st.integers(-1000, 1000), st.integers(-2**55, 2**55))
        elif dtype == "uint64":
            elem = st.one_of(st.integers(0, 1000), st.integers(0, 2**57))
        else:
            # avoid the extreme the library reserves as the dtype's null marker
            elem = st.integers(info.min + 1, info.max - 1)
        nullable = False
    vals = draw(st.lists(elem, min_size=n, max_size=n))
    if nullable and n:
        mode = draw(st.sampled_from(list(null_modes or ["none", "some", "some", "heavy", "all"])))
        if mode == "some":
            nulls = draw(st.lists(st.sampled_from([False, False, False, True]), min_size=n, max_size=n))
        elif mode == "heavy":
            nulls = draw(st.lists(st.sampled_from([True, True, False]), min_size=n, max_size=n))
        elif mode == "all":
            nulls = [True] * n
        else:
            nulls = [False] * n
        vals = [None if z else v for v, z in zip(vals, nulls)]
    spec["vals"] = vals
    return spec


@st.composite
def mask_spec(draw, n, kinds=("none", "bool", "slice", "pos"), negative_pos=True, steps=True):
    kind = draw(st.sampled_from(list(kinds)))
    if kind == "none":
        return None
    if kind == "bool":
        mode = draw(st.sampled_from(["random", "random", "all_false", "all_true", "prefix", "suffix"]))
        if mode == "random":
            vals = draw(st.lists(st.booleans(), min_size=n, max_size=n))
        elif mode == "all_false":
            vals = [False] * n
        elif mode == "all_true":
            vals = [True] * n
        else:
            c = draw(st.integers(0, n))
            vals = [(i < c) if mode == "prefix" else (i >= c) for i in range(n)]
        return {"kind": "bool", "vals": vals}
    if kind == "slice":
        b = st.one_of(st.none(), st.integers(-n - 2, n + 2))
        m = {"kind": "slice", "start": draw(b), "stop": draw(b)}
        # (the library rejects stepped slices on chunk-wise factorized keys with NotImplementedError: callers pass steps=False there)
        step = draw(st.sampled_from([None, None, None, None, -1, 2, -2, 3])) if steps else None
        if step is not None:
            m["step"] = step  # array-indexing semantics: a negative step selects the rows in reverse order
        return m
    if kind == "pos":
        if n == 0:
            return {"kind": "pos", "vals": []}
        lo = -n if (negative_pos and draw(st.booleans())) else 0
        vals = draw(st.lists(st.integers(lo, n - 1), max_size=2 * n))
        if draw(st.booleans()):
            vals = sorted(vals)
        return {"kind": "pos", "vals": vals}
    raise ValueError(kind)


@st.composite
def warm(draw):
    """0-2 earlier operations on the grouping object (see gbops.warm_up); empty in two thirds of the cases"""
    from .gbops import WARM_OPS

    if draw(st.sampled_from([True, False, False])):
        return draw(st.lists(st.sampled_from(WARM_OPS), min_size=1, max_size=2))
    return []


@st.composite
def keys(draw, n, nkeys=(1, 3), types=KEY_TYPES, allow_null=True, max_labels=6, named=True):
    k = draw(st.integers(*nkeys))
    out = []
    for i in range(k):
        nm = draw(st.sampled_from([None, f"k{i}"])) if named else None
        out.append(draw(key_column(n, types=types, allow_null=allow_null, max_labels=max_labels if k == 1 else min(max_labels, 4), name=nm)))
    return out
