"""Replay every committed regression case of a property in one process (seconds)."""
import importlib
import json
import os
import sys
import traceback


def main():
    prop, reg_dir, out = sys.argv[1:4]
    from . import env

    env.install_in_worker()
    from . import core

    mod = importlib.import_module(f"vlib.props.{prop.lower()}")
    subs = {s.name: s for s in mod.SUBS}
    ctx = core.Ctx(prop, "quick", 0)
    res = []
    skip = set(json.loads(os.environ.get("VERIF_REGRESS_SKIP", "[]")))
    for f in sorted(os.listdir(reg_dir)):
        if not f.endswith(".json") or f in skip:
            continue
        with open(out + ".cur", "w") as fh:
            fh.write(f)
        rec = json.load(open(os.path.join(reg_dir, f)))
        try:
            sub = subs[rec["sub"]]
            v = core.run_case(sub, rec["case"], ctx)
            res.append(dict(file=f, sub=rec["sub"], failed=v is not None, kind=getattr(v, "kind", None),
                            message=getattr(v, "msg", None),
                            known=core.match_known(prop, sub.name, rec["case"], v) if v else None))
        except Exception as e:  # harness error
            res.append(dict(file=f, sub=rec.get("sub"), error="".join(traceback.format_exception(type(e), e, e.__traceback__))[-2000:]))
        with open(out + ".tmp", "w") as fh:
            json.dump(res, fh, default=core.jdefault)
        os.replace(out + ".tmp", out)
    if os.path.exists(out + ".cur"):
        os.unlink(out + ".cur")
    if not res:
        json.dump(res, open(out, "w"))


if __name__ == "__main__":
    main()
    sys.stdout.flush()
    os._exit(0)
