"""Worker process: runs a slice of a property's work items and writes a JSON result."""
import argparse
import importlib
import json
import os
import sys
import time
import traceback


def plan(mod, tier):
    """Deterministic list of work items (sub, variant, replica, nreplicas, n_examples)."""
    ti = 0 if tier == "quick" else 1
    items = []
    only = [x for x in os.environ.get("VERIF_SUBS", "").split(",") if x]  # developer aid: restrict to some sub-checks
    for sub in mod.SUBS:
        if only and sub.name not in only:
            continue
        nrep = sub.replicas[ti]
        nex = sub.examples[ti]
        for variant in sub.variants:
            for r in range(nrep):
                items.append((sub.name, variant, r, nrep, max(1, nex // nrep)))
    return items


def main():
    ap = argparse.ArgumentParser()
    ap.add_argument("prop")
    ap.add_argument("--tier", default="quick")
    ap.add_argument("--seed", type=int, default=1)
    ap.add_argument("--shard", type=int, default=0)
    ap.add_argument("--nshards", type=int, default=1)
    ap.add_argument("--out", required=True)
    ap.add_argument("--items", default=None, help="comma separated item indexes (overrides shard)")
    ap.add_argument("--replay", default=None)
    a = ap.parse_args()

    from . import env

    env.install_in_worker()
    from . import core

    mod = importlib.import_module(f"vlib.props.{a.prop.lower()}")
    subs = {s.name: s for s in mod.SUBS}
    ctx = core.Ctx(a.prop, a.tier, a.seed)
    status = "ok"
    err = None

    # watchdog: a single case that makes no progress for a long time (e.g. a dead-locked thread pool) must not hang
    # the check; the partial results are written and the process exits with code 3 (inconclusive, never a violation)
    import threading

    limit = float(os.environ.get("VERIF_CASE_TIMEOUT", "240" if a.tier == "quick" else "900"))

    def watchdog():
        while True:
            time.sleep(5)
            if time.time() - ctx.t_case > limit and ctx.current is not None:
                out = ctx.dump()
                out["status"] = "stalled"
                sub_name, case = ctx.current
                out["error"] = None
                out["stalled_case"] = {"sub": sub_name, "case": json.loads(core.canon(case))}
                try:
                    json.dump(out, open(a.out, "w"), default=core.jdefault)
                finally:
                    os._exit(3)

    if not a.replay:
        threading.Thread(target=watchdog, daemon=True).start()
    try:
        if a.replay:
            rec = json.load(open(a.replay))
            sub = subs[rec["sub"]]
            v = core.run_case(sub, rec["case"], ctx)
            res = dict(replay=a.replay, failed=v is not None, kind=getattr(v, "kind", None),
                       message=getattr(v, "msg", None),
                       known=core.match_known(a.prop, sub.name, rec["case"], v) if v else None)
            json.dump(res, open(a.out, "w"), default=core.jdefault)
            return 0
        items = plan(mod, a.tier)
        if a.items:
            mine = [int(x) for x in a.items.split(",") if x != ""]
        else:
            mine = [i for i in range(len(items)) if i % a.nshards == a.shard]
        budget = 5 if os.environ.get("VERIF_STOP_FILE") else (45 if a.tier == "quick" else 240)
        for i in mine:
            name, variant, r, nrep, nex = items[i]
            sub = subs[name]
            t0 = time.time()
            if ctx.out_of_time():
                ctx.notes.append(f"item {i} {name}/{variant}/r{r}: not started, wall-clock budget used up")
                continue
            if sub.enumerate is not None:
                core.drive_enumeration(sub, variant, r, nrep, ctx)
            elif sub.stateful is not None:
                sub.stateful(sub, variant, ctx, nex, a.seed * 1000003 + i * 101 + r, budget)
            else:
                core.drive_hypothesis(sub, variant, ctx, nex, a.seed * 1000003 + i * 101 + r, budget)
            ctx.notes.append(f"item {i} {name}/{variant}/r{r}: {time.time() - t0:.1f}s")
    except core.HarnessError as e:
        status, err = "harness_error", str(e)
    except Exception as e:  # noqa
        status, err = "harness_error", "".join(traceback.format_exception(type(e), e, e.__traceback__))
    if ctx.budget_skipped:
        ctx.notes.append(f"budget: {ctx.budget_skipped} generated cases / enumeration tails skipped after the wall-clock budget (inconclusive for those)")
    out = ctx.dump()
    out["status"] = status
    out["error"] = err
    json.dump(out, open(a.out, "w"), default=core.jdefault)
    return 0 if status == "ok" else 2


if __name__ == "__main__":
    rc = main()
    sys.stdout.flush()
    sys.stderr.flush()
    # skip interpreter teardown: native thread pools (OpenMP, polars, Arrow) have been seen to hang there
    os._exit(rc or 0)
