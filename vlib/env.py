"""Process environment for checks: repo location, private numba cache, determinism.

Nothing here imports numba / groupby_lib: the parent process only computes the
environment, worker processes import the library after the environment is set.
"""
import hashlib
import os
import shutil
import sys

VERIF = os.path.dirname(os.path.dirname(os.path.abspath(__file__)))
REPO = os.environ.get("VERIF_REPO", "/repo")
PY = os.environ.get("VERIF_PYTHON", "/venv/bin/python")
GUARD = "GROUPBY_LIB_VERIF"


def source_hash(repo=None):
    repo = repo or REPO
    h = hashlib.sha256()
    root = os.path.join(repo, "groupby_lib")
    files = []
    for d, _, fs in os.walk(root):
        if "__pycache__" in d:
            continue
        for f in fs:
            if f.endswith(".py"):
                files.append(os.path.join(d, f))
    for f in sorted(files):
        h.update(os.path.relpath(f, root).encode())
        with open(f, "rb") as fh:
            h.update(fh.read())
    return h.hexdigest()[:16]


def cache_root():
    return os.environ.get("VERIF_CACHE", os.path.join(VERIF, ".cache", "numba"))


def numba_cache_dir(prune=True, keep=6):
    root = cache_root()
    os.makedirs(root, exist_ok=True)
    d = os.path.join(root, source_hash())
    os.makedirs(d, exist_ok=True)
    os.utime(d, None)
    if prune:
        others = [os.path.join(root, x) for x in os.listdir(root)]
        others = sorted((x for x in others if os.path.isdir(x)), key=os.path.getmtime)
        for x in others[:-keep]:
            if x != d:
                shutil.rmtree(x, ignore_errors=True)
    return d


def worker_env(numba_threads=1, extra=None):
    env = dict(os.environ)
    env["PYTHONHASHSEED"] = "0"
    env["PYTHONPATH"] = os.pathsep.join(
        [REPO, VERIF] + [p for p in env.get("PYTHONPATH", "").split(os.pathsep) if p]
    )
    env["NUMBA_CACHE_DIR"] = numba_cache_dir()
    env["NUMBA_NUM_THREADS"] = str(numba_threads)
    env["OMP_NUM_THREADS"] = str(numba_threads)
    env["OMP_WAIT_POLICY"] = "passive"
    env["POLARS_MAX_THREADS"] = "8"  # a tiny polars pool dead-locked when polars was called from several Python threads
    env["ARROW_NUM_THREADS"] = "2" if "ARROW_NUM_THREADS" not in env else env["ARROW_NUM_THREADS"]
    env["PYTHONWARNINGS"] = "ignore"
    env["PYTHONDONTWRITEBYTECODE"] = "1"
    env[GUARD] = "1"
    env["VERIF_REPO"] = REPO
    if extra:
        extra = dict(extra)
        suffix = extra.pop("NUMBA_CACHE_DIR_SUFFIX", None)
        if suffix:
            # e.g. NUMBA_BOUNDSCHECK changes code generation: keep those objects in their own cache
            env["NUMBA_CACHE_DIR"] = env["NUMBA_CACHE_DIR"] + "-" + suffix
        env.update(extra)
    return env


def install_in_worker():
    """Called first thing in a worker: assert the library under test is REPO's and
    make numba's cache-save failure (ReferenceError, see DESIGN 3.1) harmless."""
    import warnings

    warnings.filterwarnings("ignore")
    import numba.core.caching as nbc

    orig = nbc.Cache._save_overload

    def _save_overload(self, sig, data):
        try:
            return orig(self, sig, data)
        except ReferenceError:
            return None

    nbc.Cache._save_overload = _save_overload
    import groupby_lib

    here = os.path.realpath(os.path.dirname(groupby_lib.__file__))
    want = os.path.realpath(os.path.join(REPO, "groupby_lib"))
    if here != want:
        print(f"HARNESS-ERROR groupby_lib imported from {here}, expected {want}", file=sys.stderr)
        sys.exit(2)
    from . import contracts

    contracts.install()
    return groupby_lib
