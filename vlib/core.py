"""Check context, sub-check registry, Hypothesis driver, failure bucketing and replay files."""
import hashlib
import json
import math
import os
import time
import traceback
from collections import Counter

from . import env


class Violation(Exception):
    """The library's observable behaviour contradicts the property on this case."""

    def __init__(self, kind, msg="", extra=None):
        super().__init__(f"{kind}: {msg}")
        self.kind = kind
        self.msg = msg
        self.extra = extra or {}


class HarnessError(Exception):
    pass


class Rejected(Exception):
    """Case belongs to an input class the library refuses by type (fixed table)."""

    def __init__(self, row):
        super().__init__(row)
        self.row = row


def jdefault(o):
    import numpy as np

    if isinstance(o, (np.integer,)):
        return int(o)
    if isinstance(o, (np.floating,)):
        return float(o)
    if isinstance(o, (np.bool_,)):
        return bool(o)
    if isinstance(o, np.ndarray):
        return o.tolist()
    if isinstance(o, (set, frozenset)):
        return sorted(o)
    if isinstance(o, tuple):
        return list(o)
    return repr(o)


def canon(case):
    return json.dumps(case, sort_keys=True, default=jdefault, allow_nan=True)


def case_hash(case):
    return hashlib.blake2b(canon(case).encode(), digest_size=8).hexdigest()


_LIB_ROOT = None


def lib_frame(exc):
    """Innermost traceback frame inside the library under test, or None."""
    global _LIB_ROOT
    if _LIB_ROOT is None:
        _LIB_ROOT = os.path.realpath(os.path.join(env.REPO, "groupby_lib")) + os.sep
    found = None
    tb = exc.__traceback__
    while tb is not None:
        code = tb.tb_frame.f_code
        fn = code.co_filename
        if fn.startswith(_LIB_ROOT) or (not fn.startswith("<") and os.path.realpath(fn).startswith(_LIB_ROOT)):
            found = f"{fn[len(_LIB_ROOT):] if fn.startswith(_LIB_ROOT) else os.path.basename(fn)}:{code.co_name}"
        tb = tb.tb_next
    return found


class Sub:
    """One sub-check: a strategy (or an enumerator) plus a check function.

    check(case, ctx) -> dict|None of class labels; raises Violation.
    strategy(tier, variant) -> hypothesis strategy producing JSON-able cases.
    enumerate(tier, variant, replica, nreplicas) -> iterator of cases (exhaustive parts).
    """

    def __init__(self, name, check, strategy=None, enumerate=None, variants=("-",),
                 examples=(200, 2000), replicas=(1, 1), nontrivial=None, weight=1,
                 env=None, stateful=None, cost=None):
        self.name = name
        self.check = check
        self.strategy = strategy
        self.enumerate = enumerate
        self.variants = tuple(variants)
        self.examples = examples
        self.replicas = replicas
        self.nontrivial = nontrivial
        self.weight = weight
        self.env = env or {}
        self.stateful = stateful
        self.cost = cost or {}  # {variant: estimated CPU seconds for all replicas (quick tier)}


class Ctx:
    def __init__(self, prop, tier, seed):
        self.prop = prop
        self.tier = tier
        self.seed = seed
        self.evaluations = 0
        self.classes = Counter()
        self.nontrivial = set()
        self.nontrivial_constructed = 0
        self.samples = []
        self.sample_cap = 6
        self.failures = []
        self.known_hits = Counter()
        self.rejected = Counter()
        self.exhaustive = []
        self.notes = []
        self.per_sub = Counter()
        self.buckets = {}
        self.bucket_hits = Counter()
        self.t0 = time.time()
        self.t_case = time.time()
        self.current = None
        # wall-clock budget: past this instant no new case is started (inconclusive for what was skipped, never a violation)
        self.deadline = float(os.environ.get("VERIF_DEADLINE", "inf"))
        self.budget_skipped = 0
        self.stop_file = os.environ.get("VERIF_STOP_FILE") or None
        self._t_stop_poll = 0.0

    def out_of_time(self):
        now = time.time()
        if now > self.deadline:
            self.budget_skipped += 1
            return True
        if self.stop_file and now - self._t_stop_poll > 0.5:
            # fail-fast mode (sensitivity sweeps only): some worker has already saved a violation
            self._t_stop_poll = now
            if os.path.exists(self.stop_file):
                self.deadline = 0.0
        return False

    def found_one(self):
        if self.stop_file:
            open(self.stop_file, "w").close()
            self.deadline = 0.0

    # -- direct reporting (enumerated macro-cases report micro-cases themselves) ----
    def report(self, sub, case, v, variant="-"):
        """Record a violation found on `case`; keeps the smallest case per bucket."""
        b = bucket_of(sub, v)
        self.bucket_hits[b] += 1
        if self.bucket_hits[b] > 200:
            return  # enough examples of this root cause; keep searching for others cheaply
        k = match_known(self.prop, sub, case, v)
        if k:
            self.known_hits[k] += 1
            return
        cur = self.buckets.get(b)
        if cur is None or case_size(case) < case_size(cur[1]):
            self.buckets[b] = (sub, case, v, variant)

    def flush(self):
        for b, (sub, case, v, variant) in self.buckets.items():
            path = save_replay(self.prop, sub, case, v, variant)
            self.failures.append(dict(sub=sub, variant=variant, bucket=b, kind=v.kind,
                                      message=v.msg[:600], replay=path, case=json.loads(canon(case))))
        self.buckets = {}

    # -- bookkeeping used by check functions ---------------------------------
    def seen(self, sub, case, nontrivial, classes=(), distinct_by_construction=False):
        self.evaluations += 1
        self.per_sub[sub] += 1
        for c in classes:
            self.classes[c] += 1
        if isinstance(case, dict) and "warm" in case:
            self.classes[f"warm_up_calls:{len(case['warm'])}"] += 1
        if nontrivial:
            if distinct_by_construction:
                self.nontrivial_constructed += 1
            else:
                self.nontrivial.add(case_hash(case))
            if len(self.samples) < self.sample_cap and not any(s["sub"] == sub for s in self.samples[-2:]):
                self.samples.append({"sub": sub, "case": json.loads(canon(case))})

    def dump(self):
        return dict(
            evaluations=self.evaluations,
            classes=dict(self.classes),
            nontrivial=sorted(self.nontrivial),
            nontrivial_constructed=self.nontrivial_constructed,
            samples=self.samples,
            failures=self.failures,
            known_hits=dict(self.known_hits),
            rejected=dict(self.rejected),
            exhaustive=self.exhaustive,
            notes=self.notes,
            per_sub=dict(self.per_sub),
            wall_s=time.time() - self.t0,
        )


# ---------------------------------------------------------------------------
# known findings
_KF = None


def known_findings():
    global _KF
    if _KF is None:
        p = os.path.join(env.VERIF, "known_findings.json")
        _KF = json.load(open(p)) if os.path.exists(p) else {"findings": []}
    return _KF


def active_known(prop):
    return [f for f in known_findings()["findings"] if f["property"] == prop and f["status"] == "known"]


def match_known(prop, sub, case, viol):
    from . import known

    for f in active_known(prop):
        pred = known.PREDICATES.get(f["key"])
        if pred is None:
            continue
        try:
            if pred(sub, case, viol):
                return f["key"]
        except Exception:
            continue
    return None


# ---------------------------------------------------------------------------
def classify_exception(e):
    """Violation -> (bucket, violation); library exception -> Violation; else harness error."""
    if isinstance(e, Violation):
        return e
    if isinstance(e, (HarnessError, KeyboardInterrupt, MemoryError)):
        raise e
    where = lib_frame(e)
    if where is None:
        raise HarnessError("".join(traceback.format_exception(type(e), e, e.__traceback__)))
    v = Violation(f"exception:{type(e).__name__}@{where}", str(e)[:300])
    v.__cause__ = e
    return v


def bucket_of(sub, v):
    return f"{sub}|{v.kind}"


_BREADCRUMB = os.environ.get("VERIF_BREADCRUMB")


def run_case(sub, case, ctx):
    """Run one case; returns None if fine, else the Violation (never raises Violation)."""
    ctx.t_case = time.time()
    ctx.current = (sub.name, case)
    if _BREADCRUMB:
        # so that the parent can attribute a hard crash (SIGSEGV in JIT code) to the case that caused it
        with open(_BREADCRUMB, "w") as fh:
            fh.write(json.dumps({"sub": sub.name, "case": json.loads(canon(case))}))
    try:
        sub.check(case, ctx)
        return None
    except Rejected as r:
        ctx.rejected[r.row] += 1
        return None
    except Exception as e:  # noqa
        return classify_exception(e)


def save_replay(prop, sub_name, case, v, variant="-"):
    d = os.path.join(env.VERIF, "replays", prop)
    os.makedirs(d, exist_ok=True)
    rec = dict(property=prop, sub=sub_name, variant=variant, case=json.loads(canon(case)),
               kind=v.kind, message=v.msg[:2000])
    h = hashlib.blake2b(canon(rec).encode(), digest_size=6).hexdigest()
    p = os.path.join(d, f"{sub_name}-{h}.json")
    with open(p, "w") as fh:
        json.dump(rec, fh, indent=1, sort_keys=True, default=jdefault)
    return p


def case_size(case):
    return len(canon(case))


def drive_hypothesis(sub, variant, ctx, n_examples, seed_int, shrink_budget_s):
    """Run a Hypothesis search for one (sub, variant). Collect up to 3 distinct buckets."""
    import hypothesis
    from hypothesis import HealthCheck, Phase, given, settings

    strat = sub.strategy(ctx.tier, variant)
    excluded = set()
    for round_ in range(3):
        state = dict(best=None, best_v=None, t_fail=None, frozen=False)

        def body(case):
            if state["frozen"]:
                # shrink budget exhausted: only the best failing case keeps failing
                if state["best"] is not None and canon(case) == state["best"]:
                    raise state["best_v"]
                return
            if state["best"] is None and ctx.out_of_time():
                return
            v = run_case(sub, case, ctx)
            if v is None:
                return
            b = bucket_of(sub.name, v)
            if b in excluded:
                ctx.classes[f"excluded:{b}"] += 1
                return
            k = match_known(ctx.prop, sub.name, case, v)
            if k:
                ctx.known_hits[k] += 1
                return
            # Hypothesis' current target is always the last failing case it saw
            state["best"], state["best_v"] = canon(case), v
            if state["t_fail"] is None:
                state["t_fail"] = time.time()
            elif time.time() - state["t_fail"] > shrink_budget_s:
                state["frozen"] = True
            raise v

        test = given(strat)(body)
        test = settings(
            max_examples=max(1, n_examples), database=None, deadline=None, derandomize=False,
            report_multiple_bugs=False, suppress_health_check=list(HealthCheck),
            phases=[Phase.generate, Phase.shrink], print_blob=False,
        )(test)
        test = hypothesis.seed(seed_int + 7919 * round_)(test)
        try:
            test()
            return
        except Violation as v:
            case = json.loads(state["best"]) if state["best"] else None
            v = state["best_v"] or v
            path = save_replay(ctx.prop, sub.name, case, v, variant)
            ctx.failures.append(dict(sub=sub.name, variant=variant, bucket=bucket_of(sub.name, v),
                                     kind=v.kind, message=v.msg[:600], replay=path, case=case))
            excluded.add(bucket_of(sub.name, v))
            ctx.found_one()
        except HarnessError:
            raise
        except hypothesis.errors.Unsatisfiable as e:
            raise HarnessError(f"generator unsatisfiable in {sub.name}/{variant}: {e}")
        except BaseException as e:  # Flaky / FlakyFailure: the outcome changed between runs
            if isinstance(e, (KeyboardInterrupt, SystemExit)):
                raise
            if state["best"] is None:
                raise HarnessError("".join(traceback.format_exception(type(e), e, e.__traceback__)))
            case = json.loads(state["best"])
            v = state["best_v"]
            v = Violation(v.kind + "|nondeterministic", v.msg)
            path = save_replay(ctx.prop, sub.name, case, v, variant)
            ctx.failures.append(dict(sub=sub.name, variant=variant, bucket=bucket_of(sub.name, v),
                                     kind=v.kind, message=v.msg[:600], replay=path, case=case))
            excluded.add(bucket_of(sub.name, state["best_v"]))


def drive_enumeration(sub, variant, replica, nreplicas, ctx):
    for case in sub.enumerate(ctx.tier, variant, replica, nreplicas):
        if ctx.out_of_time():
            break
        v = run_case(sub, case, ctx)
        if v is not None:
            ctx.report(sub.name, v.extra.get("case", case), v, variant)
        if ctx.stop_file and ctx.buckets:
            ctx.found_one()
    ctx.flush()


def isnull(x):
    return x is None or (isinstance(x, float) and math.isnan(x))
