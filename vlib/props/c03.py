"""C03 Results do not depend on the execution strategy (differential across configurations)."""
import numpy as np
import pandas as pd
import pyarrow as pa
from hypothesis import strategies as st

from groupby_lib import GroupBy
from groupby_lib.groupby import numba as nbf

from .. import data, gbops, model, ops, rejections
from .. import strategies as S
from ..core import Rejected, Sub, Violation
from ..sched import Schedule

RULE = (
    "A logical case (n <= 40, 1 key for chunk routes / 1-3 keys otherwise, 1-2 value columns, mask of any accepted "
    "kind, any public operation) is run under configuration A (1 thread, whole factorization, contiguous NumPy, "
    "library's own gather order) and under a generated configuration B drawn from {1..4 threads} x {whole, whole "
    "via factorize_large_inputs_in_chunks=False, chunk-wise with 1..6 chunks, fully monotonic, partially monotonic, "
    "pre-chunked Arrow keys} x {contiguous, Arrow-chunked values with boundaries misaligned with the key chunks} x "
    "{gather permutation of the thread-pool futures} x {execution permutation of the tasks}; thresholds are scaled "
    "down from the harness.  `config_enum` enumerates all float key x value sequences of length <= 4 (quick) / 5 over "
    "{2,1,NaN} x {NaN,-1.5,2} on the chunk-wise route (2-3 chunks, 1-2 threads, 7 reductions) against the model.  A further sub-check drives numba.group_*(n_threads=) through the real thread pool under "
    "generated schedules; a real-scale sub-check uses n in {999_999, 1_000_000, 1_000_001, 2M+-1, 3M, 4M+1} with "
    "structured keys and no shims against a NumPy ufunc.at reference.  Non-trivial = B really took another route "
    "(chunked key representation observed, or > 1 thread-pool task observed) AND some live group is absent from at "
    "least one block of rows.  Distinct = case hash."
)
ORACLE = ("differential A vs B (labels, shapes, selections, counts, row-aligned outputs identical; sums/means/var within "
          "rel 1e-9) + the 8 basic reductions of B compared with the independent reference model; real scale: NumPy")
ASSUMPTIONS = [
    "true pre-emptive interleavings inside nogil kernels are not enumerated; task execution order and gather order are owned",
    "stepped slices are not generated on chunked keys (NotImplementedError by design)",
    "chunked value columns are null-free numeric (other Arrow value classes are rejected by type, see C12)",
]
BIG = 10**9


@st.composite
def config_b(draw, n, single_key):
    routes = ["whole", "whole_flag"]
    if single_key and n >= 4:
        routes += ["chunkwise", "chunkwise", "mono", "partial", "prechunked"]
    route = draw(st.sampled_from(routes))
    cfg = {"route": route, "threads": draw(st.integers(1, 4))}
    if route in ("chunkwise", "mono", "partial", "whole_flag"):
        cfg["threshold"] = draw(st.integers(1, max(1, n)))
        cfg["key_chunks"] = draw(st.integers(1, 6))
    if route == "prechunked":
        k = draw(st.integers(1, 5))
        cuts = sorted(draw(st.lists(st.integers(0, n), min_size=k - 1, max_size=k - 1)))
        b = [0] + cuts + [n]
        cfg["key_chunk_lengths"] = [y - x for x, y in zip(b[:-1], b[1:])]
    if draw(st.booleans()):
        k = draw(st.integers(1, 4))
        cuts = sorted(draw(st.lists(st.integers(0, n), min_size=k - 1, max_size=k - 1)))
        b = [0] + cuts + [n]
        cfg["val_chunks"] = [y - x for x, y in zip(b[:-1], b[1:])]
    cfg["gather"] = draw(st.lists(st.integers(0, 7), min_size=0, max_size=8))
    cfg["execute"] = draw(st.lists(st.integers(0, 7), min_size=0, max_size=8))
    return cfg


VARIANTS = {
    "f": ("float64", "float32"),
    "i": ("int64", "int32", "uint8", "bool"),
    "t": ("M8[ns]", "m8[ns]"),
}


@st.composite
def case_strategy(draw, variant):
    n = draw(st.sampled_from([4, 5, 6, 8, 10, 12, 16, 20, 30, 40]))
    single = draw(st.sampled_from([True, True, True, False]))
    if single:
        shape = draw(st.sampled_from(["random", "blocks", "blocks", "sorted", "sorted_prefix", "single"]))
        keys = [draw(S.key_column(n, types=("int", "float", "dt"), shape=shape, name=draw(st.sampled_from([None, "k"]))))]
    else:
        keys = draw(S.keys(n, nkeys=(2, 3)))
    nv = draw(st.sampled_from([1, 1, 2]))
    vals = []
    for i in range(nv):
        v = draw(S.value_column(n, dtypes=VARIANTS[variant], regime="exact", name=f"v{i}" if nv > 1 else draw(st.sampled_from([None, "v"]))))
        if v["dtype"].startswith(("M8", "m8")):
            # keep int64 sums of <= 40 rows in range (see known finding C01 temporal-mean-int64-overflow)
            v["vals"] = [None if x is None else x % (2 * 10**17) for x in v["vals"]]
        vals.append(v)
    cfg = draw(config_b(n, single))
    mk = draw(st.sampled_from(["none", "none", "bool", "slice", "pos"]))
    vkind = data.val_kind(vals[0])
    names = ops.ops_for_kind(vkind, mask_kind=mk)
    op = draw(st.sampled_from(names))
    o = ops.OPS[op]
    kw = o.kw(draw, n) if o.kw else {}
    mask = draw(S.mask_spec(n, kinds=(mk,), negative_pos=False, steps=False)) if mk != "none" else None
    return {"n": n, "keys": keys, "vals": vals, "mask": mask, "op": op, "kw": kw, "cfg": cfg,
            "sort": draw(st.sampled_from([True, True, False]))}


def render_b(case):
    cfg = case["cfg"]
    n = case["n"]
    keys = []
    for ks in case["keys"]:
        if cfg["route"] == "prechunked":
            ks = dict(ks, chunks=cfg["key_chunk_lengths"])
            keys.append(data.render_key(ks, "pa_chunked"))
        else:
            keys.append(data.render_key(ks, "np"))
    vals = []
    rej = []
    for vs in case["vals"]:
        chunkable = vs["dtype"] in ("float64", "float32", "int64", "int32", "uint8") and all(x is not None for x in vs["vals"])
        if cfg.get("val_chunks") and chunkable:
            vs2 = dict(vs, chunks=cfg["val_chunks"])
            vals.append(data.render_val(vs2, "pa_chunked" if vs.get("name") is None else "pd_arrow_chunked"))
        else:
            vals.append(data.render_val(vs, "np"))
    mask = data.render_mask(case.get("mask"), n)
    return keys, vals, mask


def values_arg(case, vals):
    if len(vals) == 1 or case["op"] == "agg_list":
        return vals[0]
    return {vs.get("name") or f"c{i}": v for i, (vs, v) in enumerate(zip(case["vals"], vals))}


def run_config(case, which):
    o = ops.OPS[case["op"]]
    if which == "A":
        keys = [data.render_key(k, "np") for k in case["keys"]]
        vals = [data.render_val(v, "np") for v in case["vals"]]
        mask = data.render_mask(case.get("mask"), case["n"])
        with gbops.Shims(threshold=BIG, threads=1):
            gb = GroupBy(keys[0] if len(keys) == 1 else keys, sort=case["sort"])
            res = o.call(gb, values_arg(case, vals) if o.needs_values else None, mask, dict(case["kw"]))
        return res, {"chunked": False, "tasks": 0, "lengths": None}
    cfg = case["cfg"]
    keys, vals, mask = render_b(case)
    kw = {}
    if cfg["route"] == "whole_flag":
        kw["factorize_large_inputs_in_chunks"] = False
    thr = cfg.get("threshold", BIG)
    with gbops.Shims(threshold=thr, threads=cfg["threads"], key_chunks=cfg.get("key_chunks")):
        with Schedule(gather=cfg.get("gather"), execute=cfg.get("execute")) as sch:
            gb = GroupBy(keys[0] if len(keys) == 1 else keys, sort=case["sort"], **kw)
            chunked = gb.key_is_chunked
            lengths = [len(c) for c in gb.group_ikey.chunks] if chunked else None
            res = o.call(gb, values_arg(case, vals) if o.needs_values else None, mask, dict(case["kw"]))
    return res, {"chunked": chunked, "tasks": sch.stats["max_tasks"], "lengths": lengths,
                 "orders": len(sch.stats["gather_orders"]), "timeouts": sch.stats["exec_timeouts"]}


def absent_from_block(case, info):
    n = case["n"]
    labels = gbops.labels_of(case)
    sel = model.select(n, case.get("mask"))
    live = {labels[p] for p in sel if labels[p] is not None}
    if info["lengths"]:
        b = np.cumsum([0] + info["lengths"])
        blocks = [range(lo, hi) for lo, hi in zip(b[:-1], b[1:])]
    else:
        blocks = [list(x) for x in np.array_split(np.arange(n), max(1, case["cfg"]["threads"]))]
    if len(blocks) < 2:
        return False
    for blk in blocks:
        present = {labels[p] for p in blk if labels[p] is not None}
        if live - present:
            return True
    return False


def lib_exception(e):
    from ..core import HarnessError, lib_frame

    if isinstance(e, (Violation, HarnessError, Rejected)):
        raise e
    if lib_frame(e) is None:
        raise e
    return e


def check(case, ctx):
    o = ops.OPS[case["op"]]
    errA = errB = None
    try:
        resA, _ = run_config(case, "A")
    except Exception as e:  # noqa
        errA = lib_exception(e)
    try:
        resB, info = run_config(case, "B")
    except Exception as e:  # noqa
        errB = lib_exception(e)
        if case["cfg"]["route"] == "prechunked":
            row = rejections.match(rejections.key_rows("pa_chunked", case["keys"][0]), e)
            if row:
                raise Rejected(row)
    if errA is not None or errB is not None:
        # the property is about *differences* between strategies: an input refused under both is C16/C18's business
        ctx.seen("config", case, False, ["both_raise" if (errA is not None and errB is not None) else "one_raises"])
        if errA is not None and errB is not None and type(errA) is type(errB):
            return
        raise Violation(f"raises-under-one-config:{case['op']}",
                        f"A: {type(errA).__name__ if errA else 'returns'}: {str(errA)[:150]} | B: {type(errB).__name__ if errB else 'returns'}: {str(errB)[:150]}")
    different_route = info["chunked"] or info["tasks"] > 1
    nt = different_route and absent_from_block(case, info)
    cfg = case["cfg"]
    ctx.seen("config", case, nt, [f"route:{cfg['route']}", f"threads:{cfg['threads']}", f"op:{case['op']}",
                                   f"observed_chunked:{info['chunked']}", f"observed_tasks>1:{info['tasks'] > 1}",
                                   f"valchunks:{bool(cfg.get('val_chunks'))}", "mask:" + (case["mask"]["kind"] if case["mask"] else "none"),
                                   f"gather_permuted:{bool(cfg.get('gather'))}", f"exec_permuted:{bool(cfg.get('execute'))}"])
    a, b = ops.normalise(resA), ops.normalise(resB)
    ops.compare_norm(a, b, tol=1e-9 if o.float_tol else 0.0, what=f"A-vs-B:{case['op']}", check_names=False)
    if case["op"] in gbops.REDUCTIONS8 and len(case["vals"]) == 1:
        _, _, groups = gbops.model_groups(case)
        gbops.compare_reduction(case, case["op"], case["vals"][0], resB, groups, what=f"B-vs-model:{case['op']}")


# ---------------------------------------------------------------------------
# exhaustive: every short key x value sequence on the chunk-wise route vs the reference model
def config_enum(tier, variant, replica, nreplicas):
    import itertools

    lmax = 4 if tier == "quick" else 5
    i = 0
    for L in range(1, lmax + 1):
        for kv in itertools.product([2.0, 1.0, None], repeat=L):
            for vv in itertools.product([None, -1.5, 2.0], repeat=L):
                i += 1
                if i % nreplicas != replica:
                    continue
                yield {"n": L, "keys": [{"t": "float", "vals": list(kv), "name": None}], "vals": [{"dtype": "float64", "vals": list(vv), "name": None}],
                       "mask": None, "sort": True}


def config_enum_check(case, ctx):
    n = case["n"]
    keys = data.render_key(case["keys"][0], "np")
    vals = data.render_val(case["vals"][0], "np")
    _, _, groups = gbops.model_groups(case)
    labels = gbops.labels_of(case)
    for kchunks in ((2, 3) if n >= 2 else (1,)):
        for threads in (1, 2):
            with gbops.Shims(threshold=1, key_chunks=kchunks, threads=threads):
                gb = GroupBy(keys)
                chunked = gb.key_is_chunked
                for op in ("min", "max", "first", "last", "sum", "count", "mean"):
                    ctx.evaluations += 1
                    ctx.per_sub["config_enum"] += 1
                    blocks = np.array_split(np.arange(n), kchunks)
                    live = {l for l in labels if l is not None}
                    if chunked and len(live) >= 2 and any(live - {labels[p] for p in b if labels[p] is not None} for b in blocks):
                        ctx.nontrivial_constructed += 1
                    try:
                        res = getattr(gb, op)(vals)
                        gbops.compare_reduction(case, op, case["vals"][0], res, groups, what=f"enum:{op}")
                    except Exception as e:  # noqa
                        from ..core import classify_exception

                        ctx.report("config_enum", dict(case, op=op, key_chunks=kchunks, threads=threads), classify_exception(e))
    if len(ctx.samples) < ctx.sample_cap and n >= 3 and ctx.evaluations % 503 == 0:
        ctx.samples.append({"sub": "config_enum", "case": case})
    lmax = 4 if ctx.tier == "quick" else 5
    txt = f"GroupBy on the chunk-wise route: all keys over {{2,1,NaN}} x values over {{NaN,-1.5,2}} of length <= {lmax} x 2-3 chunks x 1-2 threads x 7 reductions"
    if txt not in ctx.exhaustive:
        ctx.exhaustive.append(txt)


def config_enum_micro(case, ctx):
    if "op" not in case:
        return config_enum_check(case, ctx)
    keys = data.render_key(case["keys"][0], "np")
    vals = data.render_val(case["vals"][0], "np")
    _, _, groups = gbops.model_groups(case)
    with gbops.Shims(threshold=1, key_chunks=case["key_chunks"], threads=case["threads"]):
        res = getattr(GroupBy(keys), case["op"])(vals)
    gbops.compare_reduction(case, case["op"], case["vals"][0], res, groups, what=f"enum:{case['op']}")


# ---------------------------------------------------------------------------
# array-level kernels through the real thread pool under generated schedules
@st.composite
def kernel_case(draw, variant):
    n = draw(st.integers(2, 24))
    ng = draw(st.integers(1, 5))
    codes = draw(st.lists(st.integers(-1, ng - 1), min_size=n, max_size=n))
    if draw(st.booleans()):
        codes = sorted(codes)  # groups confined to blocks
    dtype = draw(st.sampled_from(["float", "int", "bool", "datetime"]))
    from .c04 import ALPHABET

    vals = draw(st.lists(st.sampled_from(ALPHABET[dtype]), min_size=n, max_size=n))
    kernel = draw(st.sampled_from([k for k in ("size", "count", "sum", "mean", "min", "max", "first", "last", "sum_squares")
                                   if not (dtype == "datetime" and k == "sum_squares")]))
    mk = draw(st.sampled_from(["none", "none", "bool", "pos"]))
    mask = None if mk == "none" else draw(S.mask_spec(n, kinds=(mk,), steps=False))
    return {"dtype": dtype, "codes": codes, "vals": vals, "kernel": kernel, "mask": mask, "ng": ng,
            "split": {"nt": draw(st.integers(2, 4))},
            "gather": draw(st.lists(st.integers(0, 7), max_size=6)), "execute": draw(st.lists(st.integers(0, 7), max_size=6))}


def kernel_check(case, ctx):
    from . import c04

    real = c04.nbf.parallel_map
    from groupby_lib.util import parallel_map as real_pm

    c04.nbf.parallel_map = real_pm  # this sub-check wants the real thread pool
    try:
        with Schedule(gather=case["gather"], execute=case["execute"]):
            dtype, codes, vals = case["dtype"], case["codes"], case["vals"]
            exp = c04.expected(case["kernel"], dtype, codes, vals, case["mask"], case["ng"])
            res = c04.call_kernel(case["kernel"], np.array(codes, dtype="int64"), c04.to_array(dtype, vals), case["mask"],
                                  case["split"]["nt"], case["ng"])
            got = c04.observed(case["kernel"], dtype, res)
    finally:
        c04.nbf.parallel_map = real
    ctx.seen("kernel_threads", case, c04.nontrivial(codes, vals, case["split"], case["mask"], case["ng"]),
             [f"kt:kernel:{case['kernel']}", f"kt:nt:{case['split']['nt']}"])
    if not c04.same(case["kernel"], dtype, exp, got):
        raise Violation(f"kernel:{case['kernel']}", f"expected {exp} got {got}")


# ---------------------------------------------------------------------------
# real scale: no shims
SIZES = [999_999, 1_000_000, 1_000_001, 1_999_999, 2_000_001, 3_000_000, 4_000_001]


@st.composite
def real_case(draw, variant):
    return {"n": draw(st.sampled_from(SIZES if variant == "all" else SIZES[:3])),
            "structure": draw(st.sampled_from(["tail_group", "sorted_prefix", "one_group", "nan_keys", "uniform", "blocks"])),
            "ngroups": draw(st.sampled_from([2, 5, 50])),
            "op": draw(st.sampled_from(["sum", "mean", "min", "max", "first", "last", "count", "size"])),
            "vkind": draw(st.sampled_from(["float", "int", "float_nan"])),
            "mask": draw(st.sampled_from(["none", "none", "bool3", "slice_tail", "slice_mid"])),
            "flag": draw(st.sampled_from([True, True, False])),
            "salt": draw(st.integers(0, 5))}


def build_real(case):
    n, g = case["n"], case["ngroups"]
    i = np.arange(n, dtype=np.int64)
    s = case["structure"]
    salt = case["salt"]
    if s == "tail_group":
        k = (i * (7 + salt)) % (g - 1 if g > 1 else 1)
        k[-max(10, n // 100):] = g - 1 if g > 1 else 0
        keys = k.astype(np.int64)
    elif s == "sorted_prefix":
        cut = int(n * 0.3)
        keys = np.concatenate([np.sort(i[:cut] % g), (i[cut:] * (3 + salt) + 1) % g]).astype(np.int64)
    elif s == "one_group":
        keys = np.zeros(n, dtype=np.int64)
    elif s == "nan_keys":
        keys = ((i * (5 + salt)) % g).astype(np.float64)
        keys[(i % 11) == 3] = np.nan
        keys[-5:] = np.nan
    elif s == "blocks":
        keys = np.sort((i * 13) % g)[::-1].copy().astype(np.int64)  # descending blocks: group g-1 first
    else:
        keys = ((i * (2654435761 + salt)) % 1000003 % g).astype(np.int64)
    if case["vkind"] == "int":
        vals = ((i * 31 + salt) % 2001 - 1000).astype(np.int64)
    else:
        vals = (((i * 17 + salt) % 4097) - 2048).astype(np.float64) / 8.0
        if case["vkind"] == "float_nan":
            vals[(i % 7) == 2] = np.nan
            if s in ("tail_group", "blocks"):
                vals[:n // 2][keys[:n // 2] == keys[0]] = np.nan  # a group all-null in the first block
    m = case["mask"]
    if m == "bool3":
        mask = (i % 3) != 1
    elif m == "slice_tail":
        mask = slice(n - n // 50, None)
    elif m == "slice_mid":
        mask = slice(n // 3, -(n // 4))
    else:
        mask = None
    return keys, vals, mask


def numpy_reference(keys, vals, mask, op):
    n = len(keys)
    sel = np.ones(n, dtype=bool) if mask is None else (mask if isinstance(mask, np.ndarray) else None)
    if sel is None:
        sel = np.zeros(n, dtype=bool)
        sel[mask] = True
    valid_key = ~np.isnan(keys) if keys.dtype.kind == "f" else np.ones(n, dtype=bool)
    rows = np.nonzero(sel & valid_key)[0]
    k = keys[rows]
    labels, inv = np.unique(k, return_inverse=True)
    v = vals[rows]
    nn = ~np.isnan(v) if v.dtype.kind == "f" else np.ones(len(v), dtype=bool)
    g = len(labels)
    out = {}
    if op == "size":
        r = np.bincount(inv, minlength=g).astype(float)
    elif op == "count":
        r = np.bincount(inv[nn], minlength=g).astype(float)
    elif op in ("sum", "mean"):
        r = np.zeros(g)
        np.add.at(r, inv[nn], v[nn].astype(float))
        if op == "mean":
            c = np.bincount(inv[nn], minlength=g).astype(float)
            with np.errstate(all="ignore"):
                r = np.where(c > 0, r / np.where(c > 0, c, 1), np.nan)
    elif op in ("min", "max"):
        r = np.full(g, np.inf if op == "min" else -np.inf)
        (np.minimum if op == "min" else np.maximum).at(r, inv[nn], v[nn].astype(float))
        r[np.isinf(r)] = np.nan
    elif op in ("first", "last"):
        r = np.full(g, np.nan)
        idx, vv = inv[nn], v[nn].astype(float)
        if op == "first":
            r[idx[::-1]] = vv[::-1]
        else:
            r[idx] = vv
    for lab, x in zip(labels, r):
        out[float(lab)] = None if np.isnan(x) else float(x)
    return out


def real_check(case, ctx):
    keys, vals, mask = build_real(case)
    kw = {} if case["flag"] else {"factorize_large_inputs_in_chunks": False}
    gb = GroupBy(keys, **kw)
    res = gbops.call(gb, case["op"], vals, mask)
    exp = numpy_reference(keys, vals, mask, case["op"])
    got = {float(k): (None if pd.isna(v) else float(v)) for k, v in zip(res.index.to_numpy(), res.to_numpy())}
    ctx.seen("realscale", case, case["structure"] != "uniform", [f"real:n:{case['n']}", f"real:{case['structure']}", f"real:op:{case['op']}",
                                                                  f"real:chunked:{gb.key_is_chunked}", f"real:flag:{case['flag']}"])
    if set(exp) != set(got):
        raise Violation(f"real:labels:{case['op']}", f"missing {sorted(set(exp) - set(got))[:5]} invented {sorted(set(got) - set(exp))[:5]}")
    for lab in exp:
        e, g_ = exp[lab], got[lab]
        if e is None or g_ is None:
            ok = e is None and g_ is None
        else:
            ok = abs(e - g_) <= 1e-9 * max(1.0, abs(e))
        if not ok:
            raise Violation(f"real:value:{case['op']}", f"label {lab}: numpy {e} library {g_}")


SUBS = [
    Sub("config", check, strategy=lambda tier, v: case_strategy(v), variants=tuple(VARIANTS), examples=(4500, 90000),
        replicas=(4, 10), cost={"f": 300, "i": 300, "t": 300}),
    Sub("config_enum", config_enum_micro, enumerate=config_enum, variants=("-",), replicas=(8, 16), cost={"-": 480}),
    Sub("kernel_threads", kernel_check, strategy=lambda tier, v: kernel_case(v), variants=("-",), examples=(1500, 30000),
        replicas=(2, 4), cost={"-": 120}),
    Sub("realscale", real_check, strategy=lambda tier, v: real_case(v), variants=("all",), examples=(36, 400),
        replicas=(2, 8), cost={"all": 160}),
]
