"""C07 transform=True broadcasts exactly the per-group result (relation between two library outputs)."""
import numpy as np
import pandas as pd
import polars as pl
from hypothesis import strategies as st

from groupby_lib import GroupBy

from .. import data, gbops, model, ops
from .. import strategies as S
from ..core import Sub, Violation

RULE = (
    "Hypothesis generates a table (n <= 30, 1-3 keys with nulls, any first-appearance order), one value column, a "
    "mask of any kind, a reduction supporting transform (sum, mean, min, max, count, size, first, last, var, std, "
    "median, apply with a scalar function), a key representation (contiguous; chunk-wise with pointer tables, "
    "queried before and after the lazy unification triggered by an earlier transform/reduction/median on the same object) "
    "and a values container (NumPy, pandas with default/shuffled/duplicate/string/offset-range index, polars).  Sub-check "
    "`frame`: 1-3 value columns of mixed dtypes handed over as DataFrame / dict of arrays / dict of Series / list / 2-D array / "
    "polars frame: frame in, frame out, columns in input order, each column the broadcast of that column's own reduction.  Non-trivial = "
    ">= 2 groups interleaved AND (a null-key row OR a group emptied by the mask).  Distinct = case hash."
)
ORACLE = ("relation T = op(transform=True) vs R = op(): len(T)==n, index == input index (RangeIndex for NumPy), container "
          "follows the input, T[i] == R[label(i)] exactly where the row's key is non-null and its label is in R, "
          "otherwise the neutral/null result of the operation (0 for sum/count/size, null otherwise; the library's "
          "integer/bool null markers are accepted for integer/bool selections)")
ASSUMPTIONS = ["R itself is tied to the reference model by C01/C16; this property only relates T to R"]

OPS_T = ("sum", "mean", "min", "max", "count", "size", "first", "last", "var", "std", "median", "apply_max")
VARIANTS = {"f": ("float64", "float32"), "i": ("int64", "int16", "uint8", "bool"), "t": ("M8[ns]", "m8[ns]")}


@st.composite
def case_strategy(draw, variant):
    n = draw(st.sampled_from([1, 2, 3, 4, 5, 6, 8, 10, 12, 16, 20, 30]))
    layout = draw(st.sampled_from(["contiguous", "contiguous", "chunkwise", "chunkwise_after_transform", "chunkwise_after_reduce",
                                    "chunkwise_after_median"]))
    if layout != "contiguous":
        n = max(n, 4)
        keys = [draw(S.key_column(n, types=("int", "float", "dt"), shape=draw(st.sampled_from(["random", "blocks", "sorted_prefix"]))))]
    else:
        keys = draw(S.keys(n, nkeys=(1, 3)))
    vspec = draw(S.value_column(n, dtypes=VARIANTS[variant], regime="exact"))
    if vspec["dtype"].endswith("[ns]"):
        vspec["vals"] = [None if x is None else x % (2 * 10**17) for x in vspec["vals"]]
    vkind = data.val_kind(vspec)
    names = [o for o in OPS_T if not (vkind in "mM" and o in ("var", "std", "median", "apply_max")) and not (vkind == "M" and o == "sum")
             and not (vkind == "b" and o in ("median",))]
    op = draw(st.sampled_from(names))
    mkinds = ("none", "bool") if op in ("median", "apply_max") else ("none", "none", "bool", "bool", "slice", "pos")
    mask = draw(S.mask_spec(n, kinds=mkinds, negative_pos=False, steps=layout == "contiguous"))
    vc = draw(st.sampled_from(["np", "series", "series", "pl"]))
    if vc == "pl" and vkind in "mM":
        vc = "series"
    return {"n": n, "warm": draw(S.warm()), "keys": keys, "vals": [vspec], "mask": mask, "op": op, "layout": layout,
            "kw": {"ddof": draw(st.sampled_from([0, 1]))} if op in ("var", "std") else {},
            "sort": draw(st.sampled_from([True, True, False])),
            "threshold": draw(st.integers(1, n)), "key_chunks": draw(st.integers(1, 5)),
            "render": {"vc": vc, "kc": "np", "index": draw(st.sampled_from(["default", "shuffled", "dup", "str", "range5"])),
                       "mc": "np"}}


def call(gb, case, values, mask, transform):
    op = case["op"]
    if op == "size":
        return gb.size(mask=mask, transform=transform)
    if op == "apply_max":
        return gb.apply(values, np.max, mask=mask, transform=transform)
    if op == "median":
        return gb.median(values, mask=mask, transform=transform)
    return getattr(gb, op)(values, mask=mask, transform=transform, **case["kw"])


def neutral_ok(op, vkind, got, res_dtype=None):
    if op in ("sum", "count", "size"):
        return got is not None and float(got) == 0.0
    if got is None:
        return True
    if op in ("min", "max", "first", "last", "apply_max"):
        if vkind == "b":
            return got is False or got == 0
        if vkind == "i":
            return got in (np.iinfo(np.int64).min, np.iinfo(np.int32).min, np.iinfo(np.int16).min, np.iinfo(np.int8).min)
        if vkind == "u":
            return got in (np.iinfo(np.uint64).max, np.iinfo(np.uint32).max, np.iinfo(np.uint16).max, np.iinfo(np.uint8).max)
    return False


def check(case, ctx):
    n = case["n"]
    op = case["op"]
    vspec = case["vals"][0]
    vkind = data.val_kind(vspec)
    keys, vals, mask, index = gbops.render(case)
    values = vals[0]
    chunkwise = case["layout"] != "contiguous"
    shim = gbops.Shims(threshold=case["threshold"], key_chunks=case["key_chunks"]) if chunkwise else gbops.Shims()
    with shim:
        gb = gbops.build(case, keys)
        chunked0 = gb.key_is_chunked
        if case["layout"] == "chunkwise_after_transform":
            gb.size(transform=True)
        elif case["layout"] == "chunkwise_after_reduce":
            gb.size()
        elif case["layout"] == "chunkwise_after_median":
            gb.median(np.zeros(n))  # unifies the chunk-local codes but keeps them chunked
        T = call(gb, case, values, mask, True)
        R = call(gbops.build(case, keys, warm=False), case, values, mask, False)
    labels = gbops.labels_of(case)
    sel = model.select(n, case["mask"])
    live_sel = {labels[p] for p in sel if labels[p] is not None}
    live_all = [l for l in dict.fromkeys(labels) if l is not None]
    interleaved = len(live_all) >= 2 and any(labels[i] is not None and labels[i + 1] is not None and labels[i] != labels[i + 1] for i in range(n - 1))
    nt = interleaved and (any(l is None for l in labels) or any(l not in live_sel for l in live_all))
    ctx.seen("transform", case, nt, [f"op:{op}", f"layout:{case['layout']}", f"observed_chunked:{chunked0}", f"vc:{case['render']['vc']}",
                                      "mask:" + (case["mask"]["kind"] if case["mask"] else "none"), f"index:{case['render']['index']}"])
    # container / index
    vc = case["render"]["vc"]
    if op == "size":
        vc = "np"  # size takes no values, so there is no input container / index to follow
    if vc == "pl":
        if not isinstance(T, pl.Series):
            raise Violation(f"container:{op}", f"polars values in, {type(T).__name__} out")
        tvals = data.series_values(T)
    else:
        if not isinstance(T, pd.Series):
            raise Violation(f"container:{op}", f"{vc} values in, {type(T).__name__} out")
        want = index if (vc == "series" and index is not None) else pd.RangeIndex(n)
        if not T.index.equals(want):
            raise Violation(f"index:{op}", f"transform index {list(T.index)[:8]} != input index {list(want)[:8]}")
        tvals = data.series_values(T)
    if len(tvals) != n:
        raise Violation(f"length:{op}", f"{len(tvals)} rows for {n} input rows")
    rlabels, rmap = gbops.result_to_dict(R, "R")
    tol = 1e-9 if op in ("sum", "mean", "var", "std", "median") else 0.0
    for i in range(n):
        lab = labels[i]
        if lab is not None and lab in rmap:
            if not ops.same_values([tvals[i]], [rmap[lab]], tol):
                raise Violation(f"broadcast:{op}", f"row {i} label {lab}: transform gives {tvals[i]!r}, reduction gives {rmap[lab]!r}")
        else:
            if not neutral_ok(op, vkind, tvals[i]):
                raise Violation(f"neutral:{op}", f"row {i} ({'null key' if lab is None else 'group without selected rows'}) got {tvals[i]!r}")


# ---------------------------------------------------------------------------
# several value columns at once: frame in, frame out, every column the transform of that column alone
FRAME_CONTAINERS = ("df", "dict", "dict_series", "list", "2d", "pl_df")


@st.composite
def frame_strategy(draw, variant):
    n = draw(st.sampled_from([2, 3, 4, 5, 6, 8, 10, 12, 16]))
    layout = draw(st.sampled_from(["contiguous", "contiguous", "chunkwise", "chunkwise_after_transform", "chunkwise_after_median"]))
    if layout != "contiguous":
        n = max(n, 4)
        keys = [draw(S.key_column(n, types=("int", "float", "dt"), shape=draw(st.sampled_from(["random", "blocks", "sorted_prefix"]))))]
    else:
        keys = draw(S.keys(n, nkeys=(1, 2)))
    how = draw(st.sampled_from(FRAME_CONTAINERS))
    ncols = draw(st.integers(1 if how in ("df", "pl_df", "dict") else 2, 3))
    dts = ("float64",) if how == "2d" else (("float64", "float32", "int64", "int16", "uint8") if variant == "mixed" else ("float64", "float32"))
    vals = [dict(draw(S.value_column(n, dtypes=dts, regime="exact")), name=f"c{j}") for j in range(ncols)]
    op = draw(st.sampled_from([o for o in OPS_T if o != "size"]))
    if variant == "mixed" and op in ("min", "max", "first", "last") and draw(st.booleans()):
        # selections are exact whatever stands in the neighbouring columns: integers beyond 2**53 next to float columns
        for v in vals:
            if v["dtype"] == "int64":
                v["vals"] = [None if x is None else 2**60 + 3 + x for x in v["vals"]]
    mask = draw(S.mask_spec(n, kinds=("none", "bool") if op in ("median", "apply_max") else ("none", "bool", "bool", "slice"), steps=layout == "contiguous"))
    return {"n": n, "warm": draw(S.warm()), "keys": keys, "vals": vals, "mask": mask, "op": op, "layout": layout, "how": how,
            "kw": {"ddof": draw(st.sampled_from([0, 1]))} if op in ("var", "std") else {},
            "sort": draw(st.sampled_from([True, True, False])),
            "threshold": draw(st.integers(1, n)), "key_chunks": draw(st.integers(1, 5)),
            "render": {"vc": "np", "kc": "np", "index": draw(st.sampled_from(["default", "shuffled", "dup", "range5"])), "mc": "np"}}


def frame_values(case, arrays, index):
    how = case["how"]
    names = [v["name"] for v in case["vals"]]
    if how == "df":
        return pd.DataFrame(dict(zip(names, arrays)), index=index), index, names
    if how == "dict":
        return dict(zip(names, arrays)), None, names
    if how == "dict_series":
        return {nm: pd.Series(a, index=index) for nm, a in zip(names, arrays)}, index, names
    if how == "list":
        return list(arrays), None, None
    if how == "2d":
        return np.column_stack(arrays), None, None
    if how == "pl_df":
        return pl.DataFrame(dict(zip(names, arrays))), None, names
    raise ValueError(how)


def check_frame(case, ctx):
    n, op = case["n"], case["op"]
    keys, arrays, mask, index = gbops.render(case)
    if index is None:
        index = pd.RangeIndex(n)
    values, want_index, names = frame_values(case, arrays, index)
    chunkwise = case["layout"] != "contiguous"
    shim = gbops.Shims(threshold=case["threshold"], key_chunks=case["key_chunks"]) if chunkwise else gbops.Shims()
    with shim:
        gb = gbops.build(case, keys)
        if case["layout"] == "chunkwise_after_transform":
            gb.size(transform=True)
        elif case["layout"] == "chunkwise_after_median":
            gb.median(np.zeros(n))
        F = call(gb, case, values, mask, True)
        singles = [call(gbops.build(case, keys, warm=False), case, a, mask, False) for a in arrays]
    labels = gbops.labels_of(case)
    ctx.seen("frame", case, len(arrays) >= 2 and len({l for l in labels if l is not None}) >= 2,
             [f"op:{op}", f"how:{case['how']}", f"cols:{len(arrays)}", f"layout:{case['layout']}",
              "mask:" + (case["mask"]["kind"] if case["mask"] else "none")])
    if case["how"] == "pl_df":
        if not isinstance(F, pl.DataFrame):
            raise Violation(f"frame-container:{op}", f"polars frame in, {type(F).__name__} out")
        cols = [data.series_values(F[c]) for c in F.columns]
        got_names = list(F.columns)
    else:
        if not isinstance(F, pd.DataFrame):
            if len(arrays) == 1 and isinstance(F, pd.Series):
                F = F.to_frame()
            else:
                raise Violation(f"frame-container:{op}", f"{case['how']} with {len(arrays)} columns in, {type(F).__name__} out")
        want = want_index if want_index is not None else pd.RangeIndex(n)
        if not F.index.equals(want):
            raise Violation(f"frame-index:{op}", f"transform index {list(F.index)[:8]} != input index {list(want)[:8]}")
        cols = [data.series_values(F.iloc[:, j]) for j in range(F.shape[1])]
        got_names = list(F.columns)
    if len(cols) != len(arrays):
        raise Violation(f"frame-columns:{op}", f"{len(cols)} columns out for {len(arrays)} in")
    if names is not None and got_names != names:
        raise Violation(f"frame-columns:{op}", f"columns {got_names} for inputs {names}")
    tol = 1e-9 if op in ("sum", "mean", "var", "std", "median") else 0.0
    for j, (tvals, R, vspec) in enumerate(zip(cols, singles, case["vals"])):
        vkind = data.val_kind(vspec)
        if len(tvals) != n:
            raise Violation(f"frame-length:{op}", f"column {j}: {len(tvals)} rows for {n} input rows")
        _, rmap = gbops.result_to_dict(R, "R")
        for i in range(n):
            lab = labels[i]
            if lab is not None and lab in rmap:
                if not ops.same_values([tvals[i]], [rmap[lab]], tol):
                    raise Violation(f"frame-broadcast:{op}", f"column {j} row {i} label {lab}: transform gives {tvals[i]!r}, reduction of that column alone gives {rmap[lab]!r}")
            elif not neutral_ok(op, vkind, tvals[i]):
                raise Violation(f"frame-neutral:{op}", f"column {j} row {i} got {tvals[i]!r}")


SUBS = [
    Sub("frame", check_frame, strategy=lambda tier, v: frame_strategy(v), variants=("mixed", "float"), examples=(2500, 40000),
        replicas=(3, 6), cost={"mixed": 250, "float": 250}),
    Sub("transform", check, strategy=lambda tier, v: case_strategy(v), variants=tuple(VARIANTS), examples=(6000, 120000),
        replicas=(5, 10), cost={v: 400 for v in VARIANTS}),
]
