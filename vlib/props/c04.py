"""C04 Block-wise reduction equals single-pass reduction (kernel contract).

Enumerates all short code/value sequences x splits x masks x kernels x dtype classes and
compares every kernel call with the pure-Python per-group definition (vlib.model).
"""
import itertools

import numpy as np
import pyarrow as pa
from hypothesis import strategies as st

from groupby_lib.groupby import numba as nbf

from .. import model
from ..core import Sub, Violation

RULE = (
    "Enumerated: every code sequence over {-1,0,1,2} x every value sequence over a per-dtype alphabet containing "
    "null, of length <= 3 (quick) / <= 4 (thorough), x every split (n_threads 1..4; every composition of the rows "
    "into 1..4 consecutive Arrow chunks incl. empty chunks) x 9 kernels x {float,int,bool,datetime}; masks "
    "(all boolean masks, slices with bounds in {None,-L-1,-L,-1,0,1,L,L+1} and steps in {1,-1,2,-2}, positional sequences with repeats) enumerated for "
    "length <= 2 (quick) / <= 3 (thorough) and strided above; lengths 5-6 over codes x null pattern with 3 "
    "canonical value assignments (thorough); Hypothesis samples lengths <= 16 with <= 6 groups and any numeric "
    "dtype.  One evaluation = one kernel call compared with the model.  Non-trivial = the call splits the rows "
    "into >= 2 blocks and some group is empty or all-null in at least one block (or, for mask sub-checks, the "
    "mask selects a proper subset / repeats a row).  Distinctness holds by construction for the enumerated part "
    "(each (dtype,codes,values,mask,kernel,split) tuple is visited once) and by case hash for the sampled part."
)
ORACLE = "pure-Python per-group definition with exact arithmetic; every split compared exactly with it"
ASSUMPTIONS = [
    "the kernels' thread-pool map is replaced by a sequential map (scheduling is C03's subject)",
    "for bool values the library's null marker of an empty group is False, indistinguishable from a real False",
    "sum_squares is not checked for datetime values (squares of timestamps are not meaningful)",
    "int alphabets avoid the int64.min sentinel, which the library documents as its integer null",
]

KERNELS = ("size", "count", "sum", "sum_squares", "mean", "min", "max", "first", "last")
MIN_INT = np.iinfo(np.int64).min
NG = 3

ALPHABET = {
    "float": [None, -1.5, 0.25, 2.0],
    "int": [-2, 0, 3],
    "bool": [False, True],
    "datetime": [None, 10**15 + 5, 10**15 + 1],
}


def seq_parallel_map(func, arg_list, *a, **k):
    return [func(*args) for args in arg_list]


nbf.parallel_map = seq_parallel_map


def to_array(dtype, vals):
    if dtype == "float":
        return np.array([np.nan if v is None else v for v in vals], dtype=np.float64)
    if dtype == "float32":
        return np.array([np.nan if v is None else v for v in vals], dtype=np.float32)
    if dtype == "bool":
        return np.array(vals, dtype=bool)
    if dtype == "datetime":
        return np.array([MIN_INT if v is None else v for v in vals], dtype=np.int64).view("M8[ns]")
    if dtype == "timedelta":
        return np.array([MIN_INT if v is None else v for v in vals], dtype=np.int64).view("m8[ns]")
    if dtype == "int":
        return np.array(vals, dtype=np.int64)
    return np.array(vals, dtype=dtype)  # int8..uint64


def chunk_values(dtype, arr, lengths):
    """Arrow chunked array with the given chunk lengths holding exactly arr's values."""
    bounds = np.cumsum([0] + list(lengths))
    chunks = []
    for a, b in zip(bounds[:-1], bounds[1:]):
        piece = arr[a:b]
        if arr.dtype.kind in "mM":
            unit = np.datetime_data(arr.dtype)[0]
            typ = pa.timestamp(unit) if arr.dtype.kind == "M" else pa.duration(unit)
            chunks.append(pa.array(piece.view("i8")).view(typ))
        else:
            chunks.append(pa.array(piece))
    return pa.chunked_array(chunks)


def mask_obj(mask):
    if mask is None:
        return None
    if mask["kind"] == "bool":
        return np.array(mask["vals"], dtype=bool)
    if mask["kind"] == "slice":
        return slice(mask.get("start"), mask.get("stop"), mask.get("step"))
    return np.array(mask["vals"], dtype=np.int64)


def expected(kernel, dtype, codes, vals, mask, ng=NG):
    """Per-group definition -> list of python scalars (None = null)."""
    n = len(codes)
    pos = model.select(n, mask)
    groups = [[] for _ in range(ng)]
    for p in pos:
        c = codes[p]
        if c >= 0:
            groups[c].append(vals[p])
    out = []
    for g in groups:
        if kernel == "size":
            out.append(len(g))
            continue
        r = model.reduce(kernel, g)
        if kernel == "mean" and r is not None:
            s = model.exact_sum(g)
            cnt = len(model.nonnull(g))
            r = float(s) / cnt if not isinstance(s, int) else s / cnt
            if dtype in ("datetime", "timedelta"):
                r = int(np.float64(s) / np.float64(cnt))
        if dtype == "bool" and kernel in ("sum",):
            r = int(r)
        out.append(r)
    return out


def observed(kernel, dtype, res):
    res = np.asarray(res)
    if res.dtype.kind in "mM":
        ints = res.view("i8")
        return [None if x == MIN_INT else int(x) for x in ints]
    if res.dtype.kind == "f":
        return [None if np.isnan(x) else float(x) for x in res]
    if res.dtype.kind == "b":
        return [bool(x) for x in res]
    if res.dtype.kind == "i":
        if kernel in ("min", "max", "first", "last"):
            lo = np.iinfo(res.dtype).min
            return [None if x == lo else int(x) for x in res]
        return [int(x) for x in res]
    if res.dtype.kind == "u":
        if kernel in ("min", "max", "first", "last"):
            hi = np.iinfo(res.dtype).max
            return [None if x == hi else int(x) for x in res]
        return [int(x) for x in res]
    raise Violation("dtype", f"unexpected result dtype {res.dtype}")


def same(kernel, dtype, exp, got, tol=False):
    if len(exp) != len(got):
        return False
    for e, g in zip(exp, got):
        if dtype == "bool" and kernel in ("min", "max", "first", "last") and e is None:
            if g is not False:
                return False
            continue
        if e is None or g is None:
            if not (e is None and g is None):
                return False
            continue
        if tol:
            if not model.close(float(e), float(g), rel=1e-6 if dtype == "float32" else 1e-12):
                return False
        elif float(e) != float(g) if isinstance(e, float) or isinstance(g, float) else e != g:
            return False
    return True


def call_kernel(kernel, codes_arr, values, mask, nt, ng=NG):
    f = getattr(nbf, f"group_{kernel}")
    m = mask_obj(mask)
    if kernel == "size":
        return f(group_key=codes_arr, ngroups=ng, mask=m, n_threads=nt)
    return f(group_key=codes_arr, values=values, ngroups=ng, mask=m, n_threads=nt)


def blocks_of(n, split, mask):
    """Row blocks (lists of positions) a split induces, for the non-triviality rule."""
    pos = model.select(n, mask)
    if "chunks" in split:
        b = np.cumsum([0] + split["chunks"])
        if mask is not None and mask["kind"] == "pos":
            return [pos]
        return [[p for p in pos if lo <= p < hi] for lo, hi in zip(b[:-1], b[1:])]
    nt = split["nt"]
    if mask is None or mask["kind"] == "slice":
        return [list(x) for x in np.array_split(np.array(pos, dtype=int), nt)]
    return [list(x) for x in np.array_split(np.array(pos, dtype=int), nt)]


def nontrivial(codes, vals, split, mask, ng=NG):
    """>= 2 blocks and a live group (one with a non-null selected value) that is empty or
    all-null in at least one block - the merge has to treat an empty partial as identity."""
    blocks = blocks_of(len(codes), split, mask)
    if len(blocks) < 2:
        return False
    live = {codes[p] for b in blocks for p in b if codes[p] >= 0 and vals[p] is not None}
    for b in blocks:
        for g in live:
            present = [vals[p] for p in b if codes[p] == g]
            if not present or all(v is None for v in present):
                return True
    return False


def micro(dtype, codes, vals, mask, kernel, split, ng=NG):
    return dict(dtype=dtype, codes=list(codes), vals=list(vals), mask=mask, kernel=kernel, split=split, ng=ng)


def check_micro(case, ctx, count=True, sub="micro", tol=False):
    dtype, codes, vals = case["dtype"], case["codes"], case["vals"]
    mask, kernel, split, ng = case.get("mask"), case["kernel"], case["split"], case.get("ng", NG)
    codes_arr = np.array(codes, dtype=case.get("code_dtype", "int64"))
    arr = to_array(dtype, vals)
    if "chunks" in split:
        values = chunk_values(dtype, arr, split["chunks"])
        nt = 1
    else:
        values = arr
        nt = split["nt"]
    exp = expected(kernel, dtype, codes, vals, mask, ng)
    res = call_kernel(kernel, codes_arr, values, mask, nt, ng)
    got = observed(kernel, dtype, res)
    if count:
        nt_ = nontrivial(codes, vals, split, mask, ng)
        ctx.seen(sub, case, nt_, classes=(f"dtype:{dtype}", f"kernel:{kernel}",
                                          "split:chunks" if "chunks" in split else f"split:nt{split['nt']}",
                                          "mask:" + ("none" if mask is None else mask["kind"])))
    if not same(kernel, dtype, exp, got, tol=tol):
        raise Violation(f"mismatch:{kernel}:{'chunks' if 'chunks' in split else 'threads'}",
                        f"{case} expected {exp} got {got}")
    if kernel in ("min", "max", "first", "last") and dtype not in ("float", "float32"):
        want = arr.dtype
        if np.asarray(res).dtype != want:
            raise Violation(f"dtype:{kernel}", f"result dtype {np.asarray(res).dtype} != input dtype {want}")


# ---------------------------------------------------------------------------
def compositions(n, k):
    """All ways to write n as an ordered sum of k non-negative ints."""
    if k == 1:
        yield [n]
        return
    for first in range(n + 1):
        for rest in compositions(n - first, k - 1):
            yield [first] + rest


def splits_for(n, dtype, kmax=4):
    out = [{"nt": t} for t in (1, 2, 3, 4)]
    if n >= 4:
        kmax = min(kmax, 3)
    if dtype != "bool":  # raw Arrow boolean arrays are rejected by type (bit-packed, no zero copy)
        for k in range(1, kmax + 1):
            for comp in compositions(n, k):
                out.append({"chunks": comp})
    return out


def masks_for(n, full=True):
    out = []
    for bits in itertools.product([False, True], repeat=n):
        out.append({"kind": "bool", "vals": list(bits)})
    bounds = [None] + sorted({-n - 1, -n, -1, 0, 1, n, n + 1})
    for a in bounds:
        for b in bounds:
            out.append({"kind": "slice", "start": a, "stop": b})
    # stepped and reversed slices (a negative step selects rows in reverse order: first/last swap roles)
    for step in (-1, 2, -2):
        for a in (None, 0, 1, -1, n - 1, n):
            for b in (None, 0, -1, n, -n - 1):
                out.append({"kind": "slice", "start": a, "stop": b, "step": step})
    for ln in range(0, 3 if full else 2):
        for seq in itertools.product(range(n), repeat=ln):
            out.append({"kind": "pos", "vals": list(seq)})
    return out


def kernels_for(dtype):
    return [k for k in KERNELS if not (dtype == "datetime" and k == "sum_squares")]


def macro_check(case, ctx):
    """case: dtype, codes, vals, mode in {split, mask}. Runs all kernels x splits (x masks)."""
    if "kernel" in case:
        return check_micro(case, ctx)
    dtype, codes, vals, mode = case["dtype"], case["codes"], case["vals"], case["mode"]
    n = len(codes)
    codes_arr = np.array(codes, dtype=np.int64)
    arr = to_array(dtype, vals)
    sub = case.get("sub", "enum")
    if mode == "split":
        masks = [None]
        splits = splits_for(n, dtype, kmax=case.get("kmax", 4))
    else:
        masks = masks_for(n, full=case.get("full", True))
        splits = [{"nt": 1}, {"nt": 2}, {"nt": 3}]
        if dtype != "bool" and n >= 1:
            splits += [{"chunks": c} for c in compositions(n, 2)]
    chunk_cache = {}
    for mask in masks:
        m = mask_obj(mask)
        exp_by_kernel = {k: expected(k, dtype, codes, vals, mask) for k in kernels_for(dtype)}
        for split in splits:
            if "chunks" in split:
                key = tuple(split["chunks"])
                if key not in chunk_cache:
                    chunk_cache[key] = chunk_values(dtype, arr, split["chunks"])
                values, nt = chunk_cache[key], 1
            else:
                values, nt = arr, split["nt"]
            if mode == "split":
                nt_flag = nontrivial(codes, vals, split, mask)
            else:
                sel = model.select(n, mask)
                nt_flag = (len(set(sel)) < n or len(sel) != len(set(sel))) and n > 0
            for kernel, exp in exp_by_kernel.items():
                if mask is not None and mask["kind"] == "slice":
                    # slices are applied to keys and values before any kernel logic: a reduced set of kernels / splits suffices,
                    # plus stepped slices over chunked value lists (the stride must run through the chunk boundaries)
                    stepped_over_chunks = mask.get("step") not in (None, 1) and "chunks" in split and kernel in ("sum", "first")
                    if not stepped_over_chunks and (kernel not in ("sum", "first", "size") or split not in ({"nt": 1}, {"nt": 2})):
                        continue
                ctx.evaluations += 1
                ctx.per_sub[sub] += 1
                if nt_flag:
                    ctx.nontrivial_constructed += 1
                try:
                    f = getattr(nbf, f"group_{kernel}")
                    if kernel == "size":
                        res = f(group_key=codes_arr, ngroups=NG, mask=m, n_threads=nt)
                    else:
                        res = f(group_key=codes_arr, values=values, ngroups=NG, mask=m, n_threads=nt)
                    got = observed(kernel, dtype, res)
                    if not same(kernel, dtype, exp, got):
                        raise Violation(f"mismatch:{kernel}:{'chunks' if 'chunks' in split else 'threads'}",
                                        f"expected {exp} got {got}")
                except Exception as e:  # noqa
                    from ..core import classify_exception

                    v = classify_exception(e)
                    ctx.report(sub, micro(dtype, codes, vals, mask, kernel, split), v)
        ctx.classes[f"dtype:{dtype}"] += len(splits) * len(exp_by_kernel)
    if len(ctx.samples) < ctx.sample_cap and n >= 2 and ctx.evaluations % 7 == 0:
        ctx.samples.append({"sub": sub, "case": dict(dtype=dtype, codes=codes, vals=vals, mode=mode,
                                                     n_masks=len(masks), n_splits=len(splits),
                                                     kernels=list(exp_by_kernel))})


def enum_split(tier, variant, replica, nreplicas):
    dtype = variant
    lmax = 3 if tier == "quick" else 4
    i = 0
    for L in range(0, lmax + 1):
        for codes in itertools.product([-1, 0, 1, 2], repeat=L):
            for vals in itertools.product(ALPHABET[dtype], repeat=L):
                i += 1
                if i % nreplicas != replica:
                    continue
                yield dict(dtype=dtype, codes=list(codes), vals=list(vals), mode="split", sub="enum_split",
                           kmax=3 if tier == "quick" else 4)


def enum_mask(tier, variant, replica, nreplicas):
    dtype = variant
    lfull = 2 if tier == "quick" else 3
    i = 0
    for L in range(0, lfull + 2):
        stride = 1 if L <= lfull else (37 if tier == "quick" else 11)
        alpha = ALPHABET[dtype]
        j = 0
        for codes in itertools.product([-1, 0, 1, 2], repeat=L):
            for vals in itertools.product(alpha, repeat=L):
                j += 1
                if j % stride != 0:
                    continue
                i += 1
                if i % nreplicas != replica:
                    continue
                yield dict(dtype=dtype, codes=list(codes), vals=list(vals), mode="mask", full=L <= lfull,
                           sub="enum_mask")


def enum_long(tier, variant, replica, nreplicas):
    """Lengths 5-6: all codes x all null patterns x three canonical value assignments (thorough only)."""
    dtype = variant
    if tier == "quick":
        lens = (5,)
        stride = 101
    else:
        lens = (5, 6)
        stride = 1
    alpha = [a for a in ALPHABET[dtype] if a is not None]
    i = 0
    for L in lens:
        asc = [sorted(alpha)[k % len(alpha)] for k in range(L)]
        assigns = [asc, asc[::-1], [alpha[0]] * L]
        nullpats = itertools.product([False, True], repeat=L) if None in ALPHABET[dtype] else [tuple([False] * L)]
        nullpats = list(nullpats)
        for codes in itertools.product([-1, 0, 1, 2], repeat=L):
            for npat in nullpats:
                for a in assigns:
                    i += 1
                    if i % stride != 0 or (i // stride) % nreplicas != replica:
                        continue
                    vals = [None if isnull else v for isnull, v in zip(npat, a)]
                    yield dict(dtype=dtype, codes=list(codes), vals=vals, mode="split", sub="enum_long",
                               kmax=3)


def record_exhaustive(ctx, text):
    if text not in ctx.exhaustive:
        ctx.exhaustive.append(text)


def macro_check_split(case, ctx):
    macro_check(case, ctx)
    lmax = 3 if ctx.tier == "quick" else 4
    record_exhaustive(ctx, f"enum_split: all codes x values x splits (n_threads 1..4, chunk compositions into <= "
                           f"{3 if ctx.tier == 'quick' else 4} chunks; <= 3 for length 4) x kernels for length <= {lmax}")


def macro_check_mask(case, ctx):
    macro_check(case, ctx)
    lfull = 2 if ctx.tier == "quick" else 3
    record_exhaustive(ctx, f"enum_mask: all codes x values x masks x kernels for length <= {lfull}")


# ---- sampled part -----------------------------------------------------------
SAMPLED_DTYPES = {
    "f": ["float", "float32"],
    "i1": ["int", "int8", "int32"],
    "i2": ["uint8", "uint64", "int16", "uint32"],
    "t": ["datetime", "timedelta", "bool"],
}


@st.composite
def sampled_case(draw, variant):
    dtype = draw(st.sampled_from(SAMPLED_DTYPES[variant]))
    n = draw(st.integers(0, 16))
    ng = draw(st.integers(1, 6))
    codes = draw(st.lists(st.integers(-1, ng - 1), min_size=n, max_size=n))
    if dtype in ("float", "float32"):
        elem = st.one_of(st.none(), st.integers(-64, 64).map(lambda k: k / 8))
    elif dtype == "bool":
        elem = st.booleans()
    elif dtype in ("datetime", "timedelta"):
        elem = st.one_of(st.none(), st.integers(10**15, 10**15 + 50))
    elif dtype == "int":
        elem = st.integers(-2**40, 2**40)
    else:
        info = np.iinfo(dtype)
        # stay away from the extreme that the library uses as null marker of the dtype
        elem = st.integers(max(info.min + 1, -100), min(info.max - 1, 100))
    vals = draw(st.lists(elem, min_size=n, max_size=n))
    mk = draw(st.sampled_from(["none", "bool", "slice", "pos"]))
    if mk == "none":
        mask = None
    elif mk == "bool":
        mask = {"kind": "bool", "vals": draw(st.lists(st.booleans(), min_size=n, max_size=n))}
    elif mk == "slice":
        b = st.one_of(st.none(), st.integers(-n - 2, n + 2))
        mask = {"kind": "slice", "start": draw(b), "stop": draw(b)}
        step = draw(st.sampled_from([None, None, -1, 2, -2, 3, -3]))
        if step is not None:
            mask["step"] = step
    else:
        mask = {"kind": "pos", "vals": draw(st.lists(st.integers(-n, n - 1), max_size=8)) if n else []}
    if dtype != "bool" and draw(st.booleans()) and not (dtype in ("float32",) and False):
        k = draw(st.integers(1, 4))
        cuts = sorted(draw(st.lists(st.integers(0, n), min_size=k - 1, max_size=k - 1)))
        b = [0] + cuts + [n]
        split = {"chunks": [y - x for x, y in zip(b[:-1], b[1:])]}
    else:
        split = {"nt": draw(st.integers(1, 4))}
    kernel = draw(st.sampled_from(kernels_for("datetime" if dtype in ("datetime", "timedelta") else dtype)))
    code_dtype = draw(st.sampled_from(["int64", "int64", "int32"]))
    c = micro(dtype, codes, vals, mask, kernel, split, ng)
    c["code_dtype"] = code_dtype
    return c


def check_sampled(case, ctx):
    dtype = case["dtype"]
    # float accumulations of arbitrary magnitudes are compared under the stated rounding tolerance;
    # integer/temporal sums and all selections stay exact
    tol = case["kernel"] in ("mean", "sum_squares") or (dtype == "float32" and case["kernel"] == "sum")
    # narrow ints: expected mean/sum are exact python values; library accumulates in (u)int64/float64
    check_micro(case, ctx, sub="sampled", tol=tol)


SUBS = [
    Sub("enum_split", macro_check_split, enumerate=enum_split, variants=("float", "int", "bool", "datetime"),
        replicas=(6, 16), cost={"float": 400, "int": 175, "bool": 40, "datetime": 175}),
    Sub("enum_mask", macro_check_mask, enumerate=enum_mask, variants=("float", "int", "bool", "datetime"),
        replicas=(4, 16), cost={"float": 170, "int": 100, "bool": 40, "datetime": 90}),
    Sub("enum_long", macro_check, enumerate=enum_long, variants=("float", "int", "bool", "datetime"),
        replicas=(3, 16), cost={"float": 146, "int": 16, "bool": 13, "datetime": 132}),
    Sub("sampled", check_sampled, strategy=lambda tier, variant: sampled_case(variant),
        variants=("f", "i1", "i2", "t"), examples=(1200, 30000), replicas=(2, 6),
        cost={"f": 95, "i1": 90, "i2": 90, "t": 70}),
    # the same sampled cases in a dedicated worker that compiles the kernels with bounds checking (sanitizer analogue:
    # an index past the end of a partial result / counter array raises instead of reading whatever lies behind it)
    Sub("sampled_boundscheck", check_sampled, strategy=lambda tier, variant: sampled_case(variant),
        variants=("f", "i1"), examples=(500, 8000), replicas=(1, 1), cost={"f": 120, "i1": 120}, env={"NUMBA_BOUNDSCHECK": "1", "NUMBA_CACHE_DIR_SUFFIX": "bc"}),
]
