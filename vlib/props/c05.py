"""C05 A mask is equivalent to filtering the rows first (metamorphic, two relations)."""
import copy

import numpy as np
from hypothesis import strategies as st

from .. import data, gbops, model, ops
from .. import strategies as S
from ..core import Sub, Violation

RULE = (
    "Hypothesis generates a logical table (n <= 30, 1-3 keys with nulls, one value column of any dtype class), an "
    "operation from the registry of maskable operations (reductions incl. var/std/median/quantile/agg, transform "
    "variants, cumulative, rolling, shift/diff, EMA row- and time-weighted, cumcount), a key layout (contiguous, or "
    "chunk-wise factorized with the threshold scaled down, where masks are split per key chunk) and a mask of a kind that operation accepts (boolean "
    "array or Series, slice with negative/open bounds, integer positions incl. repeats and unsorted; forced: "
    "all-false, all-true, prefix/suffix masks that empty a group); in a third of the cases the examined call is the "
    "second or third masked call on the same grouping object (one boolean buffer refilled in place).  Relation 1: op(K,V,mask=m) vs op(K[m],V[m]); "
    "relation 2: re-draw values (and for reductions keys) at unselected rows.  Non-trivial = the mask selects a "
    "proper non-empty subset AND the masked result differs from the unmasked one.  Distinct = case hash."
)
ORACLE = ("metamorphic: (1) same labels and numbers as the run on the pre-filtered data (row-aligned ops: value at each "
          "selected row == value at the corresponding filtered row); (2) results at selected rows are unchanged when "
          "unselected rows are perturbed; exact, or rel 1e-9 for floating sums/means/var/ema")
ASSUMPTIONS = [
    "outputs of row-aligned operations AT unselected rows are not constrained by this property",
    "for an empty selection only 'no label / no exception' is required (the library's behaviour on empty inputs is not this property)",
    "alpha/halflife-mode EMA decays on masked rows (known finding ema-alpha-decays-on-masked-rows); for that cell the "
    "agreed relations are checked instead: non-interference of unselected values and equivalence with NaN substitution",
]

VARIANTS = {"f": ("float64", "float32"), "i": ("int64", "int16", "uint8", "bool"), "t": ("M8[ns]", "m8[ns]", "M8[s]")}


@st.composite
def case_strategy(draw, variant):
    n = draw(st.sampled_from([1, 2, 3, 4, 5, 6, 8, 10, 12, 16, 20, 30]))
    layout = draw(st.sampled_from(["contiguous", "contiguous", "chunkwise"]))
    if layout == "chunkwise":
        n = max(n, 4)
        keys = [draw(S.key_column(n, types=("int", "float", "dt"), shape=draw(st.sampled_from(["random", "blocks", "sorted_prefix"]))))]
    else:
        keys = draw(S.keys(n, nkeys=(1, 3)))
    vspec = draw(S.value_column(n, dtypes=VARIANTS[variant], regime="exact"))
    if vspec["dtype"].startswith(("M8", "m8")):
        vspec["vals"] = [None if x is None else x % (2 * 10**17) if vspec["dtype"].endswith("[ns]") else x for x in vspec["vals"]]
    mk = draw(st.sampled_from(["bool", "bool", "bool", "slice", "pos"]))
    vkind = data.val_kind(vspec)
    names = [x for x in ops.ops_for_kind(vkind, kinds=("red", "row"), mask_kind=mk)]
    op = draw(st.sampled_from(names))
    o = ops.OPS[op]
    kw = o.kw(draw, n) if o.kw else {}
    mask = draw(S.mask_spec(n, kinds=(mk,), negative_pos=True, steps=layout == "contiguous"))
    # perturbation for relation 2
    alt_vals = draw(S.value_column(n, dtypes=(vspec["dtype"],), regime="exact"))["vals"]
    if vspec["dtype"].startswith(("M8", "m8")) and vspec["dtype"].endswith("[ns]"):
        alt_vals = [None if x is None else x % (2 * 10**17) for x in alt_vals]
    alt_keys = draw(S.keys(n, nkeys=(len(keys), len(keys)))) if o.kind == "red" and draw(st.booleans()) else None
    # value container: NumPy / pandas, or (numeric, non-boolean columns) an Arrow chunked array whose chunk boundaries are
    # independent of the mask: a chunk may hold no selected row at all
    vc = draw(st.sampled_from(["np", "np", "series", "chunked"]))
    if vc == "chunked":
        if vspec["dtype"] in ("float64", "float32", "int64", "int16", "uint8") and n >= 2:
            vc = draw(st.sampled_from(["pa_chunked", "pd_arrow_chunked"]))
            k = draw(st.integers(2, 4))
            cuts = sorted(draw(st.lists(st.integers(0, n), min_size=k - 1, max_size=k - 1)))
            b = [0] + cuts + [n]
            vspec["chunks"] = [y - x for x, y in zip(b[:-1], b[1:])]
            # Arrow chunks with nulls are refused by the library (zero-copy only): a rejected input class, not generated
            vspec["vals"] = [0 if v is None else v for v in vspec["vals"]]
            alt_vals = [0 if v is None else v for v in alt_vals]
        else:
            vc = "np"
    # earlier masked calls on the same grouping object (0-2), through one boolean buffer refilled in place when the
    # examined mask is a NumPy boolean array: "any operation" includes the second and third call of an object
    prior = []
    if draw(st.sampled_from([False, False, True])):
        for _ in range(draw(st.integers(1, 2))):
            prior.append(draw(S.mask_spec(n, kinds=("bool",)))["vals"])
    return {"n": n, "keys": keys, "vals": [vspec], "mask": mask, "op": op, "kw": kw, "layout": layout, "prior": prior,
            "threshold": draw(st.integers(1, n)), "key_chunks": draw(st.integers(1, 5)),
            "threads": draw(st.sampled_from([1, 1, 2, 3, 4])),  # rows split across worker threads (contiguous keys; seam scaled down)
            "sort": draw(st.sampled_from([True, True, False])), "alt_vals": alt_vals,
            "alt_keys": [k["vals"] for k in alt_keys] if alt_keys and all(a["t"] == b["t"] for a, b in zip(alt_keys, keys)) else None,
            "render": {"mc": draw(st.sampled_from(["np", "series"])), "vc": vc, "kc": "np"}}


def _call_with_prior(case, o, gb, v, mask, prior):
    """The examined call, preceded by masked calls of the same operation on the same object.  When the examined
    mask is a NumPy boolean array all of them go through ONE buffer that is refilled in place between the calls."""
    kw = dict(case.get("kw", {}))
    if prior:
        shared = isinstance(mask, np.ndarray) and mask.dtype == bool
        buf = np.empty(case["n"], dtype=bool)
        for p in prior:
            buf[:] = p
            o.call(gb, v, buf if shared else buf.copy(), dict(kw))
        if shared:
            buf[:] = mask
            mask = buf
    return o.call(gb, v, mask, kw)


def exec_case(case, with_prior=False):
    keys, vals, mask, index = gbops.render(case)
    o = ops.OPS[case["op"]]
    prior = case.get("prior") if with_prior else None
    v = vals[0] if o.needs_values else None
    if case.get("layout") == "chunkwise":
        # chunk-wise factorized keys (threshold scaled down): masks are split per key chunk there
        with gbops.Shims(threshold=case["threshold"], key_chunks=case["key_chunks"]):
            gb = gbops.build(case, keys)
            return _call_with_prior(case, o, gb, v, mask, prior)
    with gbops.Shims(threads=case.get("threads") if case.get("threads", 1) > 1 else None):
        gb = gbops.build(case, keys)
        return _call_with_prior(case, o, gb, v, mask, prior)


def filtered(case, positions):
    c = copy.deepcopy(case)
    c["n"] = len(positions)
    for k in c["keys"]:
        k["vals"] = [k["vals"][p] for p in positions]
    for v in c["vals"]:
        v["vals"] = [v["vals"][p] for p in positions]
    for k in ops.ROW_KW:
        if k in c.get("kw", {}):
            c["kw"][k] = [c["kw"][k][p] for p in positions]
    c["mask"] = None
    c["layout"] = "contiguous"
    c["threads"] = 1
    # the filtered run is the oracle side: plain containers
    c["render"] = dict(c.get("render", {}), vc="np" if c.get("render", {}).get("vc", "np") != "series" else "series")
    for v in c["vals"]:
        v.pop("chunks", None)
    return c


def rows_by_label(norm):
    if norm["type"] == "pd.Series":
        return norm["index"], {l: (v,) for l, v in zip(norm["index"], norm["values"])}
    if norm["type"] == "pd.DataFrame":
        return norm["index"], {l: tuple(col[i] for col in norm["data"]) for i, l in enumerate(norm["index"])}
    raise Violation("shape", f"unexpected result type {norm['type']}")


def row_values(norm, n):
    if norm["type"] in ("pd.Series", "pl.Series", "ndarray"):
        vals = norm["values"]
    elif norm["type"] == "pd.DataFrame" and len(norm["data"]) == 1:
        vals = norm["data"][0]
    else:
        raise Violation("shape", f"unexpected row-aligned result type {norm['type']}")
    if len(vals) != n:
        raise Violation("shape:length", f"row-aligned result has {len(vals)} rows for {n} input rows")
    return vals


def compare_reduction_results(a, b, tol, what, ordered):
    la, ra = rows_by_label(a)
    lb, rb = rows_by_label(b)
    if set(la) != set(lb) or len(la) != len(lb):
        raise Violation(f"{what}:labels", f"{la} vs {lb}")
    if ordered and la != lb:
        raise Violation(f"{what}:order", f"{la} vs {lb}")
    for lab in la:
        if not ops.same_values(list(ra[lab]), list(rb[lab]), tol):
            raise Violation(f"{what}:values", f"label {lab}: {ra[lab]} vs {rb[lab]}")


def ema_gap(case, positions):
    """an unselected row of a group lies between two selected rows of that group (alpha mode decays on it)"""
    labels = gbops.labels_of(case)
    sel = set(positions)
    first, last = {}, {}
    for p in positions:
        lab = labels[p]
        if lab is None:
            continue
        first.setdefault(lab, p)
        last[lab] = p
    for i, lab in enumerate(labels):
        if lab is not None and i not in sel and lab in first and first[lab] < i < last[lab]:
            return True
    return False


def check(case, ctx):
    o = ops.OPS[case["op"]]
    n = case["n"]
    positions = model.select(n, case["mask"])
    tol = 1e-9 if o.float_tol else 0.0
    res_m = ops.normalise(exec_case(case, with_prior=True))
    unmasked = dict(case, mask=None)
    proper = 0 < len(set(positions)) < n or len(positions) != len(set(positions))
    changes = False
    if proper:
        try:
            res_u = ops.normalise(exec_case(unmasked))
            changes = res_u != res_m
        except Exception:
            changes = True
    ctx.seen("mask", case, proper and changes,
             [f"op:{case['op']}", "mask:" + case["mask"]["kind"], f"opkind:{o.kind}", f"layout:{case.get('layout')}", f"vc:{case.get('render', {}).get('vc', 'np')}",
              "sel:empty" if not positions else ("sel:all" if len(set(positions)) == n else "sel:proper"),
              f"repeats:{len(positions) != len(set(positions))}", f"prior_calls:{len(case.get('prior') or [])}", f"threads:{case.get('threads', 1) if case.get('layout') != 'chunkwise' else 'chunkwise'}"])
    # ---- relation 1: filter first
    if not positions:
        if o.kind == "red":
            labs, _ = rows_by_label(res_m)
            if labs:
                raise Violation(f"rel1:{case['op']}:labels-on-empty-selection", f"{labs}")
    else:
        res_f = ops.normalise(exec_case(filtered(case, positions)))
        if o.kind == "red":
            compare_reduction_results(res_m, res_f, tol, f"rel1:{case['op']}", ordered=case["sort"])
        else:
            vm = row_values(res_m, n)
            vf = row_values(res_f, len(positions))
            for j, p in enumerate(positions):
                if not ops.same_values([vm[p]], [vf[j]], tol):
                    raise Violation(f"rel1:{case['op']}:row", f"selected row {p} (filtered row {j}): masked run {vm[p]} filtered run {vf[j]}",
                                    extra={"ema_gap": case["op"] == "ema" and ema_gap(case, positions)})
    # ---- relation 2: non-interference of unselected rows
    sel = set(positions)
    c2 = copy.deepcopy(case)
    c2["vals"][0]["vals"] = [v if i in sel else case["alt_vals"][i] for i, v in enumerate(case["vals"][0]["vals"])]
    if case.get("alt_keys") and o.kind == "red":
        for k, alt in zip(c2["keys"], case["alt_keys"]):
            if k["t"] == "cat":
                continue
            k["vals"] = [v if i in sel else alt[i] for i, v in enumerate(k["vals"])]
            k.pop("dtype", None)  # the re-drawn labels need not fit a narrow key dtype
    res_2 = ops.normalise(exec_case(c2))
    if o.kind == "red":
        compare_reduction_results(res_m, res_2, tol, f"rel2:{case['op']}", ordered=case["sort"] and not case.get("alt_keys"))
    else:
        vm, v2 = row_values(res_m, n), row_values(res_2, n)
        for p in sorted(sel):
            if not ops.same_values([vm[p]], [v2[p]], tol):
                raise Violation(f"rel2:{case['op']}:row", f"selected row {p} changed from {vm[p]} to {v2[p]} when unselected values were re-drawn")
    # ---- EMA: agreed semantics (NaN substitution) so that masking regressions are caught despite the known finding
    if case["op"] == "ema" and case["mask"]["kind"] == "bool" and data.val_kind(case["vals"][0]) == "f":
        c3 = copy.deepcopy(case)
        c3["vals"][0]["vals"] = [v if i in sel else None for i, v in enumerate(case["vals"][0]["vals"])]
        c3["vals"][0].pop("chunks", None)  # nulls inside Arrow chunks are a rejected input class: plain container here
        if c3.get("render", {}).get("vc") not in ("np", "series"):
            c3["render"] = dict(c3["render"], vc="np")
        c3["mask"] = None
        v3 = row_values(ops.normalise(exec_case(c3)), n)
        vm = row_values(res_m, n)
        labels = gbops.labels_of(case)
        for p in range(n):
            if labels[p] is not None and not ops.same_values([vm[p]], [v3[p]], 1e-12):
                raise Violation("ema:nan-substitution", f"row {p}: mask gives {vm[p]}, NaN substitution gives {v3[p]}")


SUBS = [
    Sub("mask", check, strategy=lambda tier, v: case_strategy(v), variants=tuple(VARIANTS), examples=(6000, 120000),
        replicas=(5, 10), cost={v: 400 for v in VARIANTS}),
]
