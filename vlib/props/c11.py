"""C11 Result labelling, order and shape are determined by the inputs (predicates + column independence)."""
import numpy as np
import pandas as pd
from hypothesis import strategies as st

from .. import ops as ops_
from .. import data, gbops, model, ops
from .. import strategies as S
from ..core import Sub, Violation

RULE = (
    "Hypothesis generates 1-3 keys of every type in any first-appearance order (categoricals with unused categories "
    "and non-lexical category order), handed over as array / named Series / list / dict / DataFrame, values handed "
    "over as 1-D array, named or unnamed Series, list of scalars, list of arrays, dict, DataFrame or 2-D array "
    "(1-3 columns; names that are strings, integers or falsy values such as 0), a key layout (contiguous or chunk-wise "
    "factorized), a mask, sort on/off, observed_only on/off and one of the 8 reductions.  Non-trivial = the "
    "first-appearance order differs from the sorted order, or an unobserved label exists, or there are >= 2 value "
    "columns.  Distinct = case hash."
)
ORACLE = ("predicates: nlevels == #keys and names == key names; order ascending (lexicographic, category order for "
          "categorical levels) when sort is on, first appearance when off; listed labels == observed labels, or all "
          "labels with neutral values when observed_only=False; 1-D values -> Series named like the input; collection "
          "-> DataFrame with the inputs' names in input order whose every column equals the single-input call")
ASSUMPTIONS = [
    "with sort=False AND a mask only the label set is checked (first appearance is taken over all rows by the library, "
    "over the selected rows by the filtering reading of C05; the statement does not decide)",
    "column labels of unnamed inputs in a collection are not constrained",
]


@st.composite
def case_strategy(draw, variant):
    n = draw(st.sampled_from([1, 2, 3, 4, 5, 6, 8, 10, 12, 16, 20]))
    layout = draw(st.sampled_from(["contiguous", "contiguous", "contiguous", "chunkwise"]))
    nk = draw(st.integers(1, 3)) if layout == "contiguous" else 1
    keys_as = draw(st.sampled_from(["auto", "auto", "list", "dict", "df", "series"])) if layout == "contiguous" else "auto"
    keys = []
    for i in range(nk):
        named = keys_as in ("dict", "df") or draw(st.booleans())
        if layout == "chunkwise":
            n = max(n, 4)
            k = draw(S.key_column(n, types=("int", "float", "dt"), max_labels=4, name=None, shape=draw(st.sampled_from(["random", "blocks", "sorted_prefix"]))))
        else:
            k = draw(S.key_column(n, max_labels=4, name=f"k{i}" if named else None))
        keys.append(k)
    if keys_as == "series" and nk > 1:
        keys_as = "list"
    nv = draw(st.sampled_from([1, 1, 2, 3]))
    dtypes = {"f": ("float64", "float32"), "i": ("int64", "int16", "uint8", "bool"), "t": ("M8[ns]", "m8[ns]")}[variant]
    vals = []
    for i in range(nv):
        v = draw(S.value_column(n, dtypes=dtypes, regime="exact"))
        if v["dtype"].endswith("[ns]"):
            v["vals"] = [None if x is None else x % (2 * 10**17) for x in v["vals"]]
        vals.append(v)
    int_nulls = variant == "i" and draw(st.sampled_from([True, False, False]))
    if int_nulls:
        # nullable integer column (pandas Int64) in which whole groups may be null: listed labels depend on keys and mask only
        nullcol = draw(S.value_column(n, dtypes=("float64",), regime="exact", null_modes=["some", "heavy", "heavy", "all"]))
        vals[0] = {"dtype": "int64", "name": None, "nullable": True, "vals": [None if x is None else int(x * 8) % 1000 - 500 for x in nullcol["vals"]]}
    if nv == 1:
        vals_as = draw(st.sampled_from(["np", "series_named", "series_unnamed", "list_scalars", "list1", "dict", "df"]))
        if int_nulls and vals_as == "list_scalars":
            vals_as = "series_unnamed"
    else:
        vals_as = draw(st.sampled_from(["list", "list_named", "dict", "df", "2d"] if not int_nulls else ["list", "list_named", "dict", "df"]))
        if vals_as == "2d":
            vals = [dict(v, dtype=vals[0]["dtype"]) for v in vals]
            for v in vals[1:]:
                v["vals"] = draw(S.value_column(n, dtypes=(vals[0]["dtype"],), regime="exact"))["vals"]
                if v["dtype"].endswith("[ns]"):
                    v["vals"] = [None if x is None else x % (2 * 10**17) for x in v["vals"]]
    vkind = data.val_kind(vals[0])
    opsl = [o for o in gbops.REDUCTIONS8 if not (o == "sum" and any(data.val_kind(v) == "M" for v in vals))]
    if vals_as == "list_scalars" and vkind in "mM":
        vals_as = "np"
    mask = draw(S.mask_spec(n, kinds=("none", "none", "bool", "slice"), steps=layout == "contiguous"))
    op = draw(st.sampled_from(opsl))
    observed_only = draw(st.sampled_from([True, True, False]))
    if (not int_nulls and all(data.val_kind(v) in "fi" for v in vals) and (mask is None or mask["kind"] == "bool")
            and draw(st.sampled_from([True, False, False, False]))):
        # median goes through another engine (sorted row groups + user function): same labelling rules
        op, observed_only = "median", True
    return {"n": n, "keys": keys, "vals": vals, "mask": mask,
            "op": op, "sort": draw(st.booleans()), "observed_only": observed_only,
            "keys_as": keys_as, "vals_as": vals_as, "layout": layout, "threshold": draw(st.integers(1, n)), "key_chunks": draw(st.integers(1, 5)),
            "names": draw(st.sampled_from(["str", "str", "int", "falsy"]))}


def key_objects(case):
    objs = []
    for k in case["keys"]:
        if case["keys_as"] == "series" or (k.get("name") and case["keys_as"] in ("auto", "list")):
            objs.append(data.render_key(k, "series"))
        else:
            objs.append(data.render_key(k, "np"))
    how = case["keys_as"]
    names = [k.get("name") for k in case["keys"]]
    if how in ("auto", "series"):
        arg = objs[0] if len(objs) == 1 else list(objs)
    elif how == "list":
        arg = list(objs)
    elif how == "dict":
        arg = {k["name"]: o for k, o in zip(case["keys"], objs)}
    else:
        arg = pd.DataFrame({k["name"]: (o if not isinstance(o, pd.Categorical) else pd.Series(o)) for k, o in zip(case["keys"], objs)})
    # names as the library can see them: numpy arrays and Categoricals carry no name
    seen = []
    for k, o in zip(case["keys"], objs):
        if how in ("dict", "df"):
            seen.append(k["name"])
        else:
            seen.append(k.get("name") if isinstance(o, pd.Series) else None)
    return arg, seen


def value_objects(case):
    """-> (argument, expected column names or None for 1-D, list of single-input objects)"""
    how = case["vals_as"]
    vs = case["vals"]
    arrs = [data.render_val(v, "series_nullable" if v.get("nullable") else "np") for v in vs]
    style = case.get("names", "str")
    if style != "str":
        # integer / falsy labels (0, False ...) are names like any other
        labels = [0, 1, 2] if style == "int" else [0, False, ""][:len(arrs)] if False else [0, 1, 2]
        if style == "falsy":
            labels = [0, 7, 8]
        if how == "series_named":
            return pd.Series(arrs[0], name=labels[0]), None, labels[0]
        if how == "list_named":
            return [pd.Series(a, name=labels[i]) for i, a in enumerate(arrs)], labels[:len(arrs)], None
        if how == "dict":
            return {labels[i]: a for i, a in enumerate(arrs)}, labels[:len(arrs)], None
        if how == "df":
            return pd.DataFrame({labels[i]: a for i, a in enumerate(arrs)}), labels[:len(arrs)], None
    if how == "np":
        return arrs[0], None, None
    if how == "series_named":
        return pd.Series(arrs[0], name="val"), None, "val"
    if how == "series_unnamed":
        return pd.Series(arrs[0]), None, None
    if how == "list_scalars":
        return list(arrs[0].tolist()), None, None
    if how == "list1":
        return [arrs[0]], ["?"], None
    if how == "list":
        return list(arrs), ["?"] * len(arrs), None
    if how == "list_named":
        return [pd.Series(a, name=f"c{i}") for i, a in enumerate(arrs)], [f"c{i}" for i in range(len(arrs))], None
    if how == "dict":
        return {f"d{i}": a for i, a in enumerate(arrs)}, [f"d{i}" for i in range(len(arrs))], None
    if how == "df":
        return pd.DataFrame({f"f{i}": a for i, a in enumerate(arrs)}), [f"f{i}" for i in range(len(arrs))], None
    if how == "2d":
        return np.column_stack(arrs), ["?"] * len(arrs), None
    raise ValueError(how)


def neutral(op, got):
    if op in ("sum", "count", "size"):
        return got is not None and float(got) == 0.0
    return got is None or got is False or got in (np.iinfo(np.int64).min, np.iinfo(np.int16).min, 255)


def check(case, ctx):
    from groupby_lib import GroupBy

    n, op = case["n"], case["op"]
    karg, knames = key_objects(case)
    varg, colnames, sname = value_objects(case)
    mask = data.render_mask(case["mask"], n)
    if case.get("layout") == "chunkwise":
        with gbops.Shims(threshold=case["threshold"], key_chunks=case["key_chunks"]):
            gb = GroupBy(karg, sort=case["sort"])
            gb.result_index
    else:
        gb = GroupBy(karg, sort=case["sort"])
    kw = {"observed_only": case["observed_only"]} if op != "median" else {}
    res = gb.size(mask=mask, **kw) if op == "size" else getattr(gb, op)(varg, mask=mask, **kw)
    labels, pos, groups = gbops.model_groups(case)
    _, _, groups_all = gbops.model_groups(case, mask=None)
    sk = gbops.label_sort_key(case)
    first_app = list(groups_all)
    single_cat = len(case["keys"]) == 1 and case["keys"][0]["t"] == "cat"
    # all labels known to the grouping
    if len(case["keys"]) == 1:
        k = case["keys"][0]
        universe = [(c,) for c in k["cats"]] if k["t"] == "cat" else ([(False,), (True,)] if k["t"] == "bool" else first_app)
    else:
        universe = first_app
    unobserved = [l for l in universe if l not in groups]
    nt = (first_app != sorted(first_app, key=sk)) or bool(unobserved) or len(case["vals"]) >= 2
    ctx.seen("shape", case, nt, [f"op:{op}", f"sort:{case['sort']}", f"observed_only:{case['observed_only']}", f"keys_as:{case['keys_as']}",
                                 f"vals_as:{case['vals_as']}", f"layout:{case.get('layout')}", f"names:{case.get('names')}", f"nkeys:{len(case['keys'])}", "mask:" + (case["mask"]["kind"] if case["mask"] else "none"),
                                 f"unobserved:{bool(unobserved)}", f"nullable-int-values:{bool(case['vals'][0].get('nullable'))}"] + [f"keytype:{k['t']}" for k in case["keys"]])
    # ---- container shape
    if op == "size":
        colnames, sname_expected = None, None
    if colnames is None:
        if not isinstance(res, pd.Series):
            raise Violation(f"shape:{case['vals_as']}", f"1-D values gave {type(res).__name__}")
        if op != "size" and res.name != sname:
            raise Violation(f"name:{case['vals_as']}", f"result name {res.name!r}, input name {sname!r}")
        cols = [res]
    else:
        if not isinstance(res, pd.DataFrame):
            raise Violation(f"shape:{case['vals_as']}", f"collection of {len(colnames)} values gave {type(res).__name__}")
        if res.shape[1] != len(colnames):
            raise Violation(f"columns:{case['vals_as']}", f"{res.shape[1]} columns for {len(colnames)} inputs")
        for want, got in zip(colnames, res.columns):
            if want != "?" and want != got:
                raise Violation(f"columns:{case['vals_as']}", f"columns {list(res.columns)} expected {colnames}")
        cols = [res.iloc[:, i] for i in range(res.shape[1])]
    # ---- index: levels, names, label set and order
    idx = cols[0].index
    if idx.nlevels != len(case["keys"]):
        raise Violation("index:nlevels", f"{idx.nlevels} levels for {len(case['keys'])} keys")
    if list(idx.names) != knames:
        raise Violation("index:names", f"{list(idx.names)} expected {knames}")
    got_labels = data.index_labels(idx)
    if case["observed_only"]:
        want_set = list(groups)
    else:
        want_set = universe
    if set(got_labels) != set(want_set) or len(got_labels) != len(set(got_labels)):
        raise Violation(f"labels:observed_only={case['observed_only']}", f"got {got_labels} expected (as a set) {want_set}")
    if single_cat or case["sort"]:
        want_order = sorted(want_set, key=sk)
    elif case["mask"] is None:
        want_order = [l for l in universe if l in set(want_set)] if len(case["keys"]) > 1 or case["keys"][0]["t"] not in ("bool",) else None
        if len(case["keys"]) == 1 and case["keys"][0]["t"] == "bool":
            want_order = [l for l in first_app] + [l for l in universe if l not in first_app]
            want_order = [l for l in want_order if l in set(want_set)]
    else:
        want_order = None
    if want_order is not None and got_labels != want_order:
        raise Violation(f"order:sort={case['sort']}", f"got {got_labels} expected {want_order}")
    # ---- values: every column equals the single-input call; unobserved labels carry the neutral result
    for i, (col, vspec) in enumerate(zip(cols, case["vals"] if op != "size" else [None])):
        gvals = data.series_values(col)
        gmap = dict(zip(got_labels, gvals))
        if op == "size":
            exp = {l: len(ps) for l, ps in groups.items()}
        else:
            if vspec.get("nullable"):
                # small integers with nulls: the numbers are exact in any numeric dtype the library answers in
                vspec = dict(vspec, dtype="float64", vals=[None if x is None else float(x) for x in vspec["vals"]])
            pv = data.val_py(vspec)
            if op == "median":
                import statistics

                exp = {}
                for l, ps in groups.items():
                    # NumPy's median of the group's selected values (C16): a null makes it null
                    gv_ = [pv[p_] for p_ in ps]
                    exp[l] = None if any(x is None for x in gv_) or not gv_ else statistics.median([float(x) for x in gv_])
            else:
                exp = gbops.expected_reduction(case, op, vspec, groups)
        for lab in got_labels:
            if lab in groups:
                gv = [pv[p] for p in groups[lab]] if op != "size" else []
                if op == "median":
                    ok = ops_.same_values([None if gmap[lab] is None else float(gmap[lab])], [exp[lab]], 1e-9)
                else:
                    ok = (gmap[lab] == exp[lab]) if op == "size" else gbops.value_matches(op, vspec, exp[lab], gmap[lab], gv)
                if not ok:
                    raise Violation(f"value:{op}", f"column {i} label {lab}: expected {exp[lab]!r} got {gmap[lab]!r}")
            elif not neutral(op, gmap[lab]):
                raise Violation(f"neutral:{op}", f"unobserved label {lab} carries {gmap[lab]!r}")


SUBS = [
    Sub("shape", check, strategy=lambda tier, v: case_strategy(v), variants=("f", "i", "t"), examples=(6000, 120000),
        replicas=(5, 10), cost={"f": 300, "i": 300, "t": 300}),
]
