"""C12 Same data in any supported container or dtype gives the same answer (differential across renderings)."""
import numpy as np
import pandas as pd
import polars as pl
import pyarrow as pa
from hypothesis import strategies as st

from groupby_lib import GroupBy

from .. import data, gbops, model, ops, rejections
from .. import strategies as S
from ..core import Rejected, Sub, Violation, lib_frame

RULE = (
    "One logical dataset (n <= 24, 1-2 keys, 1-2 value columns of numeric/bool/temporal dtype with nulls) is rendered "
    "twice: base NumPy and an arbitrary rendering of keys (NumPy, pandas Series/Index/Categorical, pandas string and "
    "nullable dtypes, pa.Array, pa.ChunkedArray, Arrow dictionary, Arrow-backed pandas, polars) AND values (NumPy, "
    "pandas Series, nullable and Arrow-backed pandas, pa.Array, pa.ChunkedArray, polars; arbitrary chunk boundaries "
    "incl. empty chunks, misaligned between keys and values; collections as dict / pandas / polars DataFrame), for "
    "the 8 reductions, var, median, transform, cumulative, rolling sums and extrema, shift, diff and EMA; integer columns with nulls (nullable pandas, "
    "Arrow-backed pandas, polars) are compared with the reference model in a separate sub-check.  Non-trivial = the rendering differs from the "
    "base in container AND (has a null, or is chunked with a boundary inside a group, or is temporal / narrow int).  "
    "Distinct = case hash."
)
ORACLE = ("normalised results of the two renderings are equal (labels; numbers under the C01 tolerance policy); min/max/"
          "first/last/cummin/cummax outputs are elements of the input and keep its logical dtype (integer width, bool, "
          "timedelta unit, tz-aware datetime with zone and unit); shifted/rolling-extreme temporal values exact; integer "
          "sums of narrow ints equal the exact Python sum")
ASSUMPTIONS = [
    "input classes the library rejects by type alone (fixed table in vlib/rejections.py) are counted, not failed",
    "integer columns WITH nulls have no NumPy rendering: the sub-check int_with_nulls compares them with the reference model "
    "(known finding nullable-int-with-nulls-to-float64)",
]

KEY_CONTAINERS = {
    "int": ["np", "series", "index", "list", "pa", "pa_chunked", "pd_arrow", "pd_arrow_chunked", "pl", "pa_dict", "pa_dict_chunked"],
    "float": ["np", "series", "index", "pa", "pd_arrow", "pl", "pa_chunked"],
    "str": ["np", "series", "index", "series_str", "pa", "pd_arrow", "pl", "pa_dict", "pa_dict_chunked", "list"],
    "bool": ["np", "series", "index", "pa", "pl"],
    "dt": ["np", "series", "index", "pd_arrow", "pl"],
    "cat": ["cat", "series", "pl"],
}
VAL_CONTAINERS = ["np", "series", "series_nullable", "pa", "pa_chunked", "pd_arrow", "pd_arrow_chunked", "pl"]
OPS12 = ("size", "count", "sum", "mean", "min", "max", "first", "last", "cumsum", "cummin", "cummax", "rolling_min", "rolling_max",
         "shift", "sum_transform", "min_transform", "last_transform",
         # statistics and row-aligned float operations: same numbers (rel 1e-9) whatever the container
         "var", "median", "rolling_sum", "diff", "ema", "mean_transform")
FLOAT_OPS = {"var": "fiu", "median": "fiu", "rolling_sum": "fiu", "ema": "fi", "diff": "fiumM", "mean_transform": "fiub"}
SELECTIONS = ("min", "max", "first", "last", "cummin", "cummax", "rolling_min", "rolling_max", "shift", "min_transform", "last_transform")
VARIANTS = {"f": ("float64", "float32"), "i": ("int64", "int32", "int16", "int8", "uint8", "uint16", "uint32", "uint64", "bool"),
            "t": ("M8[ns]", "M8[s]", "M8[us]", "m8[ns]", "m8[s]", "tz:US/Eastern:ns", "tz:UTC:us")}


def chunks_for(draw, n):
    k = draw(st.integers(1, 4))
    cuts = sorted(draw(st.lists(st.integers(0, n), min_size=k - 1, max_size=k - 1)))
    b = [0] + cuts + [n]
    return [y - x for x, y in zip(b[:-1], b[1:])]


@st.composite
def case_strategy(draw, variant):
    n = draw(st.sampled_from([1, 2, 3, 4, 5, 6, 8, 10, 12, 16, 24]))
    nk = draw(st.sampled_from([1, 1, 2]))
    keys, kcs = [], []
    for i in range(nk):
        k = draw(S.key_column(n, max_labels=4, name=draw(st.sampled_from([None, f"k{i}"]))))
        kc = draw(st.sampled_from(KEY_CONTAINERS[k["t"]]))
        if k["t"] == "cat" and kc == "pl" and not all(isinstance(c, str) for c in k["cats"]):
            kc = "series"  # polars categoricals hold strings only
        if kc.startswith("pa_dict") and all(x is None for x in k["vals"]):
            kc = "np"  # an Arrow dictionary array without any value has an empty dictionary
        if "chunked" in kc:
            k["chunks"] = chunks_for(draw, n)
        if kc == "list" and (n == 0 or nk > 1):
            kc = "np"
        keys.append(k)
        kcs.append(kc)
    nv = draw(st.sampled_from([1, 1, 2]))
    vals, vcs = [], []
    for i in range(nv):
        v = draw(S.value_column(n, dtypes=VARIANTS[variant], regime="exact", name=f"v{i}" if nv > 1 else draw(st.sampled_from([None, "v"]))))
        if v["dtype"].endswith("[ns]") or v["dtype"].endswith(":ns"):
            v["vals"] = [None if x is None else x % (2 * 10**17) for x in v["vals"]]
        vc = draw(st.sampled_from(VAL_CONTAINERS))
        if "chunked" in vc:
            v["chunks"] = chunks_for(draw, n)
        if v["dtype"].startswith("tz:") and vc in ("np", "series_nullable"):
            vc = "series"
        vals.append(v)
        vcs.append(vc)
    if nv > 1:
        family = draw(st.sampled_from(["pandas", "polars", "dict"]))
        if family == "polars":
            vcs = ["pl"] * nv
        elif family == "pandas":
            vcs = [vc if vc in ("series", "series_nullable", "pd_arrow", "pd_arrow_chunked") else "series" for vc in vcs]
    else:
        family = "single"
    vkind = data.val_kind(vals[0])
    opsl = [o for o in OPS12 if not (vkind == "M" and o in ("sum", "cumsum", "sum_transform")) and not (vkind == "b" and o in ("rolling_min", "rolling_max", "shift"))
            and not (o in FLOAT_OPS and any(data.val_kind(v) not in FLOAT_OPS[o] for v in vals))]
    op = draw(st.sampled_from(opsl))
    mask = draw(S.mask_spec(n, kinds=("none", "none", "bool")))
    return {"n": n, "keys": keys, "kcs": kcs, "vals": vals, "vcs": vcs, "family": family, "op": op, "mask": mask, "sort": True,
            "window": draw(st.integers(1, 3))}


def call(gb, op, values, mask, case):
    if op == "size":
        return gb.size(mask=mask)
    if op.endswith("_transform"):
        return getattr(gb, op[:-10])(values, mask=mask, transform=True)
    if op.startswith("rolling_"):
        return getattr(gb, op)(values, window=case["window"], min_periods=1, mask=mask)
    if op in ("shift", "diff"):
        return getattr(gb, op)(values, window=case["window"], mask=mask)
    if op == "ema":
        return gb.ema(values, alpha=0.5, mask=mask)
    return getattr(gb, op)(values, mask=mask)


def values_argument(case, objs):
    if case["family"] == "single":
        return objs[0]
    names = [v.get("name") or f"c{i}" for i, v in enumerate(case["vals"])]
    if case["family"] == "polars":
        return pl.DataFrame({nm: o for nm, o in zip(names, objs)})
    if case["family"] == "pandas":
        return pd.DataFrame({nm: o for nm, o in zip(names, objs)})
    return dict(zip(names, objs))


def columns_of(res, n_expected):
    """result -> (index labels or None, list of value lists, list of dtypes)"""
    if isinstance(res, pl.DataFrame):
        return None, [data.series_values(res[c]) for c in res.columns], [res[c].dtype for c in res.columns]
    if isinstance(res, pl.Series):
        return None, [data.series_values(res)], [res.dtype]
    if isinstance(res, pd.DataFrame):
        return data.index_labels(res.index), [data.series_values(res.iloc[:, i]) for i in range(res.shape[1])], list(res.dtypes)
    if isinstance(res, pd.Series):
        return data.index_labels(res.index), [data.series_values(res)], [res.dtype]
    raise Violation("shape", f"unexpected result {type(res).__name__}")


def logical_dtype(dt):
    """(kind, itemsize, unit, tz) of a numpy / pandas / arrow / polars dtype"""
    if isinstance(dt, pl.DataType) or (isinstance(dt, type) and issubclass(dt, pl.DataType)):
        s = str(dt)
        if s.startswith("Datetime"):
            return ("M", 8, getattr(dt, "time_unit", None), getattr(dt, "time_zone", None))
        if s.startswith("Duration"):
            return ("m", 8, getattr(dt, "time_unit", None), None)
        m = {"Int8": ("i", 1), "Int16": ("i", 2), "Int32": ("i", 4), "Int64": ("i", 8), "UInt8": ("u", 1), "UInt16": ("u", 2), "UInt32": ("u", 4),
             "UInt64": ("u", 8), "Float32": ("f", 4), "Float64": ("f", 8), "Boolean": ("b", 1)}
        k = m.get(s, ("O", 0))
        return (k[0], k[1], None, None)
    if isinstance(dt, pd.DatetimeTZDtype):
        return ("M", 8, dt.unit, str(dt.tz))
    if isinstance(dt, pd.ArrowDtype):
        t = dt.pyarrow_dtype
        if pa.types.is_timestamp(t):
            return ("M", 8, t.unit, t.tz)
        if pa.types.is_duration(t):
            return ("m", 8, t.unit, None)
        return logical_dtype(np.dtype(t.to_pandas_dtype()))
    if isinstance(dt, np.dtype):
        if dt.kind in "mM":
            return (dt.kind, 8, np.datetime_data(dt)[0], None)
        return (dt.kind, dt.itemsize, None, None)
    if hasattr(dt, "numpy_dtype"):
        return logical_dtype(np.dtype(dt.numpy_dtype))
    return ("O", 0, None, None)


def expected_logical(vspec, vc="np"):
    d = vspec["dtype"]
    if vc == "pl" and (d.endswith("[s]") or d.endswith(":s")):
        d = d.replace("[s]", "[ms]").replace(":s", ":ms")  # polars has no second resolution
    if d.startswith("tz:"):
        _, zone, unit = d.split(":")
        return ("M", 8, unit, zone)
    return logical_dtype(np.dtype(d))


def check(case, ctx):
    n, op = case["n"], case["op"]
    mask = data.render_mask(case["mask"], n)
    # base rendering
    kbase = [data.render_key(k, "np") for k in case["keys"]]
    vbase = [data.render_val(v, "np" if not v["dtype"].startswith("tz:") else "series") for v in case["vals"]]
    base_case = dict(case, family="single" if len(vbase) == 1 else "dict")
    resA = call(GroupBy(kbase[0] if len(kbase) == 1 else kbase), op, values_argument(base_case, vbase), mask, case)
    # arbitrary rendering
    kobjs = [data.render_key(k, kc) for k, kc in zip(case["keys"], case["kcs"])]
    vobjs = [data.render_val(v, vc) for v, vc in zip(case["vals"], case["vcs"])]
    rej = [r for k, kc in zip(case["keys"], case["kcs"]) for r in rejections.key_rows(kc, k)] + \
          [r for v, vc in zip(case["vals"], case["vcs"]) for r in rejections.val_rows(vc, v)] + \
          rejections.collection_rows(case["family"], case["vcs"])
    differs = any(kc != "np" for kc in case["kcs"]) or any(vc != "np" for vc in case["vcs"])
    has_null = any(x is None for k in case["keys"] for x in k["vals"]) or any(x is None for v in case["vals"] for x in v["vals"])
    chunked = any("chunked" in c for c in case["kcs"] + case["vcs"])
    narrow = any(v["dtype"] not in ("float64", "int64") for v in case["vals"])
    ctx.seen("render", case, differs and (has_null or chunked or narrow),
             [f"op:{op}", f"family:{case['family']}"] + [f"kc:{c}" for c in case["kcs"]] + [f"vc:{c}" for c in case["vcs"]] +
             [f"vdtype:{v['dtype']}" for v in case["vals"]])
    try:
        resB = call(GroupBy(kobjs[0] if len(kobjs) == 1 else kobjs), op, values_argument(case, vobjs) if op != "size" else None, mask, case)
    except Exception as e:  # noqa
        row = rejections.match(rej, e)
        if row:
            raise Rejected(row)
        raise
    idxA, colsA, dtA = columns_of(resA, len(vbase))
    idxB, colsB, dtB = columns_of(resB, len(vobjs))
    dictionary_like = any(kc.startswith("pa_dict") or kc in ("cat",) or (k["t"] == "cat") for k, kc in zip(case["keys"], case["kcs"]))
    if idxA is not None and idxB is not None and op in gbops.REDUCTIONS8 + ("var", "median"):
        if dictionary_like:
            # dictionary / categorical containers list labels in dictionary order (C11): compare as a mapping
            if sorted(idxA, key=repr) != sorted(idxB, key=repr):
                raise Violation(f"labels:{op}", f"numpy {idxA} vs rendering {idxB}")
            orderA = {l: i for i, l in enumerate(idxA)}
            perm = [orderA[l] for l in idxB]
            colsA = [[col[i] for i in perm] for col in colsA]
        elif idxA != idxB:
            raise Violation(f"labels:{op}", f"numpy {idxA} vs rendering {idxB}")
    if len(colsA) != len(colsB):
        raise Violation(f"columns:{op}", f"{len(colsA)} vs {len(colsB)}")
    tol = 1e-9 if op in ("sum", "mean", "cumsum", "sum_transform", "var", "median", "rolling_sum", "ema", "mean_transform") else 0.0
    for j, (a, b) in enumerate(zip(colsA, colsB)):
        if not ops.same_values(a, b, tol):
            raise Violation(f"values:{op}", f"column {j}: numpy rendering {a} vs {case['kcs']}/{case['vcs']} rendering {b}")
    # dtype / exactness predicates on the arbitrary rendering
    if op in SELECTIONS:
        for j, (vspec, vc, dt) in enumerate(zip(case["vals"], case["vcs"], dtB)):
            want = expected_logical(vspec, vc)
            got = logical_dtype(dt)
            int_with_nulls_rendering = False
            kind = want[0]
            if kind in "iub" and op in ("rolling_min", "rolling_max", "shift"):
                continue  # C09: integer inputs may be returned as float64 there
            if got[0] != want[0] or (kind in "iu" and got[1] != want[1]) or (kind in "mM" and (got[2] != want[2] or (want[3] or None) != (got[3] or None))):
                raise Violation(f"dtype:{op}", f"column {j}: input {vspec['dtype']} in {vc} gave {dt}")
            pv = set(x for x in data.val_py(vspec) if x is not None)
            for x in colsB[j]:
                if x is None or (kind == "b"):
                    continue
                if kind in "iu" and x in (np.iinfo(np.dtype(vspec["dtype"])).min, np.iinfo(np.dtype(vspec["dtype"])).max):
                    continue  # the library's integer null marker
                if x not in pv:
                    raise Violation(f"not-an-element:{op}", f"column {j}: output {x!r} is not an element of the input")
    if op == "sum" and all(data.val_kind(v) in "iu" for v in case["vals"]):
        labels, pos, groups = gbops.model_groups(case)
        for j, vspec in enumerate(case["vals"]):
            pv = data.val_py(vspec)
            exp = {lab: sum(pv[p] for p in ps) for lab, ps in groups.items()}
            got = dict(zip(idxB, colsB[j]))
            for lab, e in exp.items():
                if got.get(lab) != e:
                    raise Violation("int-sum-wrap", f"column {j} label {lab}: exact sum {e} got {got.get(lab)!r}")


# ---- integer columns WITH nulls (only expressible in nullable / Arrow-backed / polars containers) --------------------
@st.composite
def intnull_case(draw, variant):
    n = draw(st.sampled_from([2, 3, 4, 6, 8, 12]))
    keys = [draw(S.key_column(n, types=("int", "str"), max_labels=3))]
    dtype = draw(st.sampled_from(["int64", "int32", "int16", "uint8", "uint64"]))
    v = draw(S.value_column(n, dtypes=(dtype,), regime="exact"))
    nulls = draw(st.lists(st.sampled_from([False, False, True]), min_size=n, max_size=n))
    if not any(nulls):
        nulls[draw(st.integers(0, n - 1))] = True
    v["vals"] = [None if z else x for x, z in zip(v["vals"], nulls)]
    labs = sorted({x for x in keys[0]["vals"] if x is not None}, key=repr)
    if labs and draw(st.booleans()):
        # a group whose integer values are all null must still be listed with the neutral result
        victim = draw(st.sampled_from(labs))
        v["vals"] = [None if k == victim else x for x, k in zip(v["vals"], keys[0]["vals"])]
    return {"n": n, "keys": keys, "vals": [v], "vc": draw(st.sampled_from(["series_nullable", "pd_arrow", "pl"])),
            "op": draw(st.sampled_from(["min", "max", "first", "last", "sum", "count", "cummax", "cummin"])), "mask": None, "sort": True}


def intnull_check(case, ctx):
    n, op = case["n"], case["op"]
    vspec = case["vals"][0]
    key = data.render_key(case["keys"][0], "np")
    values = data.render_val(vspec, case["vc"])
    big = any(x is not None and abs(x) > 2**53 for x in vspec["vals"])
    ctx.seen("int_with_nulls", case, True, [f"intnull:vc:{case['vc']}", f"intnull:op:{op}", f"intnull:dtype:{vspec['dtype']}", f"intnull:>2^53:{big}"])
    res = getattr(GroupBy(key), op)(values)
    got = data.series_values(res)
    dt = res.dtype
    pv = data.val_py(vspec)
    if op in ("cummax", "cummin"):
        from .c08 import prefix_model

        exp = prefix_model(op[3:], gbops.labels_of(case), pv, range(n), n, True)
        for i, (e, g) in enumerate(zip(exp, got)):
            if e == ("skip",) or e is None:
                continue
            if g is None or float(g) != float(e):
                raise Violation(f"intnull:value:{op}", f"row {i}: exact {e} got {g!r} (dtype {dt})")
            if int(g) != e:
                raise Violation(f"intnull:inexact:{op}", f"row {i}: exact {e} got {g!r} (dtype {dt})", extra={"intnull": True})
    else:
        labels, pos, groups = gbops.model_groups(case)
        exp = gbops.expected_reduction(case, op, vspec, groups)
        got_labels = data.index_labels(res.index)
        if sorted(got_labels, key=repr) != sorted(exp, key=repr):
            raise Violation(f"intnull:labels:{op}", f"labels {got_labels}, observed groups {list(exp)} (a group whose values are all null must not disappear)")
        gmap = dict(zip(got_labels, got))
        for lab, e in exp.items():
            g = gmap.get(lab)
            if e is None:
                if g is not None and not (isinstance(g, float) and g != g):
                    raise Violation(f"intnull:value:{op}", f"label {lab}: all values null, expected null got {g!r}")
                continue
            if g is None:
                raise Violation(f"intnull:value:{op}", f"label {lab}: exact {e} got null")
            gv_ = [abs(pv[p_]) for p_ in groups[lab] if pv[p_] is not None]
            if abs(float(g) - float(e)) > 4 * (len(gv_) + 1) * gbops.EPS64 * float(sum(gv_)):
                raise Violation(f"intnull:value:{op}", f"label {lab}: exact {e} got {g!r} (dtype {dt})")
            if int(g) != e:
                # right up to float64 rounding: the known float detour
                raise Violation(f"intnull:inexact:{op}", f"label {lab}: exact {e} got {g!r} (dtype {dt})", extra={"intnull": True})
    if op in ("min", "max", "first", "last", "cummax", "cummin"):
        want = expected_logical(vspec, case["vc"])
        lg = logical_dtype(dt)
        if lg[0] != want[0] or lg[1] != want[1]:
            raise Violation(f"intnull:dtype:{op}", f"input {vspec['dtype']} (with nulls) in {case['vc']} gave {dt}", extra={"intnull": True})


SUBS = [
    Sub("int_with_nulls", intnull_check, strategy=lambda tier, v: intnull_case(v), variants=("-",), examples=(1500, 30000), replicas=(1, 2),
        cost={"-": 60}),
    Sub("render", check, strategy=lambda tier, v: case_strategy(v), variants=tuple(VARIANTS), examples=(6000, 120000),
        replicas=(5, 10), cost={v: 400 for v in VARIANTS}),
]
