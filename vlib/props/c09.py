"""C09 Rolling operations are per-group sliding-window reductions (model + exhaustive small + layout differential)."""
import itertools

import numpy as np
import pandas as pd
from hypothesis import strategies as st

from groupby_lib.groupby import numba as nbf

from .. import data, gbops, model, ops
from .. import strategies as S
from ..core import Sub, Violation, classify_exception

RULE = (
    "Enumerated through numba.rolling_*: all code sequences over {0,1} x value sequences over {null,-2.0,1.5} of "
    "length <= 6 (quick) / <= 7 (thorough) x window 1..3 x min_periods 1..window x {sum,mean,min,max} plus "
    "shift/diff for window 1..3; datetime alphabet {NaT,t+5,t+1} for length <= 5/6.  Sampled through GroupBy: n <= 30, "
    "1-2 keys with nulls, any interleaving, window 1..6, min_periods None/1..window, boolean masks, dtypes float32/64, "
    "ints, datetime64[ns/s] and timedelta64 with values above 2^53 / nanosecond digits, both index_by_groups "
    "settings.  `bigwindow`: windows 32766..70000 (around 2^15 and 2^16) over 1-2 interleaved groups slightly longer than "
    "the window, nulls every 97th/1013th row, vs prefix-sum / monotonic-deque references.  Non-trivial = some group sees more than `window` selected rows with a null inside a window while "
    "another group is interleaved (buffer wrap + eviction of a null).  Distinct by construction / case hash."
)
ORACLE = ("sliding-window model: window = last `window` selected rows of the group (nulls occupy slots), null unless the "
          "non-null count >= min_periods; shift/diff by `window` group rows, diff null when either operand is null and "
          "in the input's time unit; float/temporal min/max/shift are elements of the input (exact); running sums within "
          "8 eps sum|history|; index_by_groups=True must hold the same numbers regrouped under (label, original index)")
ASSUMPTIONS = [
    "index_by_groups=True is implemented through pandas.rolling, which refuses datetime/timedelta values (DataError); "
    "that combination is not generated",
    "integer (non-temporal) inputs may be returned as float64 (the property demands exactness for floats and temporals)",
    "min_periods=0 is outside the quantified domain (1..window)",
]
MIN_INT = np.iinfo(np.int64).min


def window_model(op, labels, values, selected, n, window, min_periods=None):
    """-> list; ('skip',) where the property is silent (unselected / null-key rows)."""
    if min_periods is None:
        min_periods = window
    sel = set(selected)
    hist = {}
    out = [("skip",)] * n
    for i in range(n):
        lab = labels[i]
        if lab is None or i not in sel:
            continue
        h = hist.setdefault(lab, [])
        h.append(values[i])
        if op in ("shift", "diff"):
            if len(h) > window:
                prev = h[-window - 1]
                if op == "shift":
                    out[i] = prev
                else:
                    out[i] = None if (prev is None or values[i] is None) else values[i] - prev
            else:
                out[i] = None
            continue
        w = h[-window:]
        nn = model.nonnull(w)
        if len(nn) >= min_periods and nn:
            if op == "sum":
                out[i] = model.fsum(nn)
            elif op == "mean":
                out[i] = float(model.exact_sum(nn)) / len(nn) if not isinstance(model.exact_sum(nn), int) else model.exact_sum(nn) / len(nn)
            elif op == "min":
                out[i] = min(nn)
            else:
                out[i] = max(nn)
        else:
            out[i] = None
    return out


def history_abs(labels, values, selected):
    tot = {}
    for i in selected:
        if labels[i] is not None and values[i] is not None:
            tot[labels[i]] = tot.get(labels[i], 0.0) + abs(float(values[i]))
    return tot


def compare(op, exp, got, labels, tot, eps, what, exact):
    for i, (e, g) in enumerate(zip(exp, got)):
        if e == ("skip",):
            continue
        if e is None or g is None:
            if not (e is None and g is None):
                raise Violation(f"{what}:{op}", f"row {i}: expected {e!r} got {g!r}", extra={"row": i})
            continue
        if exact or op in ("min", "max", "shift"):
            ok = float(e) == float(g) if isinstance(e, float) or isinstance(g, float) else e == g
        else:
            bound = 8 * eps * tot.get(labels[i], 0.0) + 1e-300
            ok = abs(float(e) - float(g)) <= bound
        if not ok:
            raise Violation(f"{what}:{op}", f"row {i}: expected {e!r} got {g!r}", extra={"row": i})


def to_py(arr):
    arr = np.asarray(arr)
    if arr.dtype.kind in "mM":
        m = data.UNIT_NS[np.datetime_data(arr.dtype)[0]]
        return [None if x == MIN_INT else int(x) * m for x in arr.view("i8")]
    if arr.dtype.kind == "f":
        return [None if np.isnan(x) else float(x) for x in arr]
    return [int(x) for x in arr]


# ---------------------------------------------------------------------------
ALPHA = {"float": [None, -2.0, 1.5], "datetime": [None, 10**18 + 5, 10**18 + 1]}


def enum_cases(tier, variant, replica, nreplicas):
    lmax = (6 if variant == "float" else 5) + (0 if tier == "quick" else 1)
    i = 0
    for L in range(1, lmax + 1):
        for codes in itertools.product([0, 1], repeat=L):
            for vals in itertools.product(ALPHA[variant], repeat=L):
                i += 1
                if i % nreplicas != replica:
                    continue
                yield {"dtype": variant, "codes": list(codes), "vals": list(vals)}


def enum_check(case, ctx):
    dtype, codes, vals = case["dtype"], case["codes"], case["vals"]
    micro = "op" in case
    n = len(codes)
    labels = [(c,) for c in codes]
    if dtype == "float":
        arr = np.array([np.nan if v is None else v for v in vals])
    else:
        arr = np.array([MIN_INT if v is None else v for v in vals], dtype="int64").view("M8[ns]")
    carr = np.array(codes, dtype=np.int64)
    if micro:
        combos = [(case["op"], case["window"], case.get("min_periods"))]
    else:
        combos = [(o, w, mp) for o in ("sum", "mean", "min", "max") for w in (1, 2, 3) for mp in range(1, w + 1)]
        combos += [(o, w, None) for o in ("shift", "diff") for w in (1, 2, 3)]
    for op, w, mp in combos:
        if dtype == "datetime" and op in ("sum", "mean"):
            continue
        interesting = max(codes.count(0), codes.count(1)) > w and len(set(codes)) == 2 and None in vals
        if not micro:
            ctx.evaluations += 1
            ctx.per_sub["enum"] += 1
            if interesting:
                ctx.nontrivial_constructed += 1
        try:
            if op in ("shift", "diff"):
                res = getattr(nbf, "rolling_" + op)(carr, arr, 2, w)
            else:
                res = getattr(nbf, "rolling_" + op)(carr, arr, 2, w, min_periods=mp)
            exp = window_model(op, labels, vals, range(n), n, w, mp)
            got = to_py(res)
            compare(op, exp, got, labels, {}, 0.0, "kernel", exact=True)
        except Exception as e:  # noqa
            v = classify_exception(e)
            if micro:
                raise v
            ctx.report("enum", dict(case, op=op, window=w, min_periods=mp), v)
    if not micro:
        if len(ctx.samples) < ctx.sample_cap and n >= 5 and None in vals and ctx.evaluations % 13 == 0:
            ctx.samples.append({"sub": "enum", "case": case})
        lmax = (6 if dtype == "float" else 5) + (0 if ctx.tier == "quick" else 1)
        txt = f"numba.rolling_*: all codes over {{0,1}} x values over {ALPHA[dtype]} of length <= {lmax} x window<=3 x min_periods<=window ({dtype})"
        if txt not in ctx.exhaustive:
            ctx.exhaustive.append(txt)


# ---------------------------------------------------------------------------
VARIANTS = {"f": ("float64", "float32"), "i": ("int64", "int32", "uint8"), "t": ("M8[ns]", "m8[ns]", "M8[s]")}


@st.composite
def case_strategy(draw, variant):
    n = draw(st.sampled_from([1, 2, 3, 4, 5, 6, 8, 10, 12, 16, 20, 30]))
    keys = draw(S.keys(n, nkeys=(1, 2), max_labels=3))
    vspec = draw(S.value_column(n, dtypes=VARIANTS[variant], regime=draw(st.sampled_from(["exact", "exact", "wild"])),
                                null_modes=["none", "some", "some", "heavy"]))
    vkind = data.val_kind(vspec)
    opsl = ["sum", "mean", "min", "max", "shift", "diff"]
    if vkind in "mM":
        opsl = ["min", "max", "shift", "diff"]
    op = draw(st.sampled_from(opsl))
    w = draw(st.integers(1, 6))
    mp = draw(st.one_of(st.none(), st.integers(1, w)))
    mask = draw(S.mask_spec(n, kinds=("none", "none", "bool")))
    by_groups = op not in ("shift", "diff") and vkind not in "mM" and draw(st.sampled_from([False, False, True]))
    return {"n": n, "warm": draw(S.warm()), "prior_by_groups": draw(st.booleans()), "keys": keys, "vals": [vspec], "mask": mask, "op": op, "window": w, "min_periods": mp, "sort": True,
            "index_by_groups": by_groups,
            "render": {"vc": draw(st.sampled_from(["np", "series"])), "kc": "np", "index": draw(st.sampled_from(["default", "shuffled", "str"])), "mc": "np"}}


def call(gb, case, values, mask, by_groups=False):
    op = case["op"]
    if op == "shift":
        return gb.shift(values, window=case["window"], mask=mask)
    if op == "diff":
        return gb.diff(values, window=case["window"], mask=mask)
    return getattr(gb, "rolling_" + op)(values, window=case["window"], min_periods=case["min_periods"], mask=mask,
                                        index_by_groups=by_groups)


def check(case, ctx):
    n, op = case["n"], case["op"]
    vspec = case["vals"][0]
    vkind = data.val_kind(vspec)
    keys, vals, mask, index = gbops.render(case)
    gb = gbops.build(case, keys)
    labels = gbops.labels_of(case)
    sel = model.select(n, case["mask"])
    pyvals = data.val_py(vspec)
    w, mp = case["window"], case["min_periods"]
    # non-triviality
    selset = set(sel)
    rows = {}
    for i in sel:
        if labels[i] is not None:
            rows.setdefault(labels[i], []).append(i)
    nt = False
    if len(rows) >= 2:
        for l, ps in rows.items():
            if len(ps) > w and any(pyvals[p] is None for p in ps) and any(labels[i] not in (None, l) for i in range(ps[0], ps[-1] + 1)):
                nt = True
    ctx.seen("gb", case, nt, [f"op:{op}", f"dtype:{vspec['dtype']}", f"window:{w}", f"mp:{'none' if mp is None else 'set'}",
                              "mask:" + ("bool" if case["mask"] else "none"), f"by_groups:{case['index_by_groups']}"])
    res = call(gb, case, vals[0], mask)
    if not isinstance(res, pd.Series) or len(res) != n:
        raise Violation(f"shape:{op}", f"{type(res).__name__} of length {len(res)} for {n} rows")
    got = data.series_values(res)
    exp = window_model(op, labels, pyvals, sel, n, w, mp)
    eps = gbops.EPS64
    tot = history_abs(labels, pyvals, sel)
    if vkind in "iu" and op in ("min", "max", "shift", "diff", "sum"):
        # integers may come back as float64: compare numerically with float rounding of the int
        exp = [e if e in (("skip",), None) else float(e) for e in exp]
        got = [g if g is None else float(g) for g in got]
    if op == "diff" and vkind in "mM":
        pass
    compare(op, exp, got, labels, tot, eps, "gb", exact=vkind in "mM")
    # temporal dtypes
    if vkind in "mM":
        rk = res.dtype.kind if isinstance(res.dtype, np.dtype) else "M"
        want = "m" if op == "diff" else vkind
        if rk != want:
            raise Violation(f"dtype:{op}", f"{vspec['dtype']} values gave {res.dtype}")
    # group-sorted layout
    if case["index_by_groups"]:
        gb_g = gbops.build(case, keys, warm=False)
        if case.get("prior_by_groups") and n:
            # an earlier group-sorted call on the same object with values under ANOTHER index (keys carry none)
            other = pd.Series(np.zeros(n), index=pd.RangeIndex(100, 100 + n))
            gb_g.rolling_sum(other, window=2, index_by_groups=True)
        res_g = call(gb_g, case, vals[0], mask, by_groups=True)
        if not isinstance(res_g, pd.Series):
            raise Violation(f"by-groups:shape:{op}", f"{type(res_g).__name__}")
        sk = gbops.label_sort_key(case)
        order = [p for lab in sorted(rows, key=sk) for p in rows[lab]]
        gvals = data.series_values(res_g)
        if len(gvals) != len(order):
            raise Violation(f"by-groups:length:{op}", f"{len(gvals)} rows, expected {len(order)} selected non-null-key rows")
        want_vals = [got[p] for p in order]
        for j, (a, b) in enumerate(zip(want_vals, gvals)):
            # both layouts are within the running-sum bound of the exact value, so within twice of each other
            bound = 16 * eps * tot.get(labels[order[j]], 0.0) + 1e-300 if op in ("sum", "mean") else 0.0
            close = a is not None and b is not None and abs(float(a) - float(b)) <= bound
            if not (close or ops.same_values([a], [b], 0.0)):
                raise Violation(f"by-groups:values:{op}", f"position {j} (row {order[j]}): row layout {a!r}, group layout {b!r}")
        idx = data.index_labels(res_g.index)
        row_labels = data.index_labels(index) if (index is not None and case["render"]["vc"] == "series") else [(i,) for i in range(n)]
        want_idx = [tuple(labels[p]) + tuple(row_labels[p]) for p in order]
        if idx != want_idx:
            raise Violation(f"by-groups:index:{op}", f"{idx[:6]} != {want_idx[:6]}")


# ---------------------------------------------------------------------------
# real-scale windows: buffer bookkeeping beyond the 16-bit range
@st.composite
def big_case(draw, variant):
    w = draw(st.sampled_from([32766, 32767, 32768, 32769, 40000, 65535, 65536, 65537, 70000]))
    return {"window": w, "extra": draw(st.integers(1, 3000)), "groups": draw(st.sampled_from([1, 2])), "block": draw(st.sampled_from([1, 7, 1000])),
            "null_every": draw(st.sampled_from([0, 97, 1013])), "op": draw(st.sampled_from(["sum", "mean", "min", "max", "shift", "diff"])),
            "min_periods": draw(st.sampled_from(["none", "one", "half"])), "mul": draw(st.sampled_from([7919, 104729]))}


def big_check(case, ctx):
    from collections import deque

    from groupby_lib import GroupBy

    w, g, op = case["window"], case["groups"], case["op"]
    per = w + case["extra"]
    n = per * g
    keys = (np.arange(n) // case["block"]) % g if g > 1 else np.zeros(n, dtype=np.int64)
    vals = ((np.arange(n, dtype=np.int64) * case["mul"]) % 1009 - 504).astype("float64")
    if case["null_every"]:
        vals[::case["null_every"]] = np.nan
    mp = {"none": None, "one": 1, "half": w // 2}[case["min_periods"]]
    ctx.seen("bigwindow", case, w >= 32768, [f"big:op:{op}", f"big:window>=2^15:{w >= 32768}", f"big:window>=2^16:{w >= 65536}", f"big:groups:{g}"])
    gb = GroupBy(keys)
    if op in ("shift", "diff"):
        got = np.asarray(getattr(gb, op)(vals, window=w), dtype="float64")
    else:
        got = np.asarray(getattr(gb, "rolling_" + op)(vals, window=w, min_periods=mp), dtype="float64")
    if len(got) != n:
        raise Violation(f"big:length:{op}", f"{len(got)} rows for {n}")
    exp = np.full(n, np.nan)
    need = w if mp is None else mp
    for lab in range(g):
        rows = np.flatnonzero(keys == lab)
        x = vals[rows]
        m = len(x)
        ok = ~np.isnan(x)
        if op in ("shift", "diff"):
            e = np.full(m, np.nan)
            e[w:] = x[:-w] if op == "shift" else x[w:] - x[:-w]
        else:
            cnt = np.concatenate([[0], np.cumsum(ok)])
            lo = np.maximum(0, np.arange(1, m + 1) - w)
            c = cnt[1:] - cnt[lo]
            if op in ("sum", "mean"):
                cs = np.concatenate([[0.0], np.cumsum(np.where(ok, x, 0.0))])  # small integers: exact
                tot = cs[1:] - cs[lo]
                e = tot if op == "sum" else np.where(c > 0, tot / np.maximum(c, 1), np.nan)
            else:
                # monotonic deque, the textbook sliding extremum
                e = np.full(m, np.nan)
                dq = deque()
                better = (lambda a, b: a >= b) if op == "max" else (lambda a, b: a <= b)
                for i in range(m):
                    if ok[i]:
                        while dq and better(x[i], x[dq[-1]]):
                            dq.pop()
                        dq.append(i)
                    while dq and dq[0] <= i - w:
                        dq.popleft()
                    if dq:
                        e[i] = x[dq[0]]
            e = np.where(c >= need, e, np.nan)
        exp[rows] = e
    bad = np.flatnonzero(~((got == exp) | (np.isnan(got) & np.isnan(exp)) | (np.abs(got - exp) <= 1e-12 * np.maximum(1.0, np.abs(exp)))))
    if len(bad):
        i = int(bad[0])
        raise Violation(f"big:{op}", f"window {w}, {g} group(s): {len(bad)} of {n} rows differ, first at row {i}: expected {exp[i]!r} got {got[i]!r}")


SUBS = [
    Sub("bigwindow", big_check, strategy=lambda tier, v: big_case(v), variants=("-",), examples=(64, 1200), replicas=(4, 8), cost={"-": 120}),
    Sub("enum", enum_check, enumerate=enum_cases, variants=("float", "datetime"), replicas=(8, 16),
        cost={"float": 600, "datetime": 150}),
    Sub("gb", check, strategy=lambda tier, v: case_strategy(v), variants=tuple(VARIANTS), examples=(4500, 90000),
        replicas=(3, 8), cost={v: 300 for v in VARIANTS}),
    # dedicated worker with bounds-checked kernels (sanitizer analogue: ring-buffer / counter indexes)
    Sub("gb_boundscheck", check, strategy=lambda tier, v: case_strategy(v), variants=tuple(VARIANTS)[:2], examples=(500, 8000),
        replicas=(1, 1), cost={v: 150 for v in VARIANTS}, env={"NUMBA_BOUNDSCHECK": "1", "NUMBA_CACHE_DIR_SUFFIX": "bc"}),
]
