"""C16 Variance, quantiles and composite statistics match their definitions."""
import math
from fractions import Fraction

import numpy as np
import pandas as pd
from hypothesis import strategies as st

from groupby_lib import GroupBy

from .. import data, gbops, model, ops
from .. import strategies as S
from ..core import Sub, Violation

RULE = (
    "Hypothesis generates tables (n <= 30, 1-2 keys with nulls) with value columns x = offset + noise where the offset "
    "reaches 1e8 times the noise scale (float64, float32, ints), ddof in {0,1}, masks (var/std: any kind; quantile/"
    "apply: boolean), quantile lists, and user functions returning an order-sensitive scalar, a fixed-length vector or "
    "an input-aligned vector; composite helpers agg(list), ratio and single-key density.  Non-trivial = >= 2 groups "
    "and (offset >= 1e4 x scale, or a group with <= ddof values, or a masked-out group, or a null key).  Distinct = "
    "case hash."
)
ORACLE = ("two-pass exact Fraction variance within 8 n eps sum(x^2)/max(1,n-ddof) (null iff count-ddof <= 0; std = sqrt, "
          "NaN allowed only if the exact variance is below the bound); median/quantile == np.median/np.quantile on the "
          "group's selected values; apply(f) == f on each group's values in row order; agg(list) == the individual "
          "calls side by side; ratio == sum/sum; density == 100*share and sums to 100")
ASSUMPTIONS = ["eps is 2^-23 for float32 input (the library sums float32 in float32) and 2^-52 otherwise"]


@st.composite
def offset_values(draw, n, dtypes=("float64", "float32", "int64")):
    dtype = draw(st.sampled_from(dtypes))
    power = draw(st.sampled_from([0, 0, 2, 4, 6, 8]))
    noise = draw(st.lists(st.integers(-64, 64), min_size=n, max_size=n))
    if dtype == "int64":
        vals = [10**power + k for k in noise]
    elif dtype == "float32":
        power = min(power, 4)
        vals = [float(np.float32(10.0**power + k / 8)) for k in noise]
    else:
        vals = [10.0**power + k / 8 for k in noise]
    if dtype != "int64" and n:
        nulls = draw(st.lists(st.sampled_from([False, False, False, True]), min_size=n, max_size=n))
        vals = [None if z else v for v, z in zip(vals, nulls)]
    return {"dtype": dtype, "name": None, "vals": vals, "power": power}


@st.composite
def var_case(draw, variant):
    n = draw(st.sampled_from([1, 2, 3, 4, 5, 6, 8, 10, 12, 16, 20, 30]))
    vspec = draw(offset_values(n))
    # value container: NumPy, or a nullable container (pandas nullable / Arrow-backed pandas / polars) in which integer
    # columns can hold nulls too: the count that enters the variance is the number of non-null values, whatever the dtype
    vc = draw(st.sampled_from(["np", "np", "series_nullable", "pd_arrow", "pl"]))
    if vc != "np" and vspec["dtype"] == "int64" and n:
        nulls = draw(st.lists(st.sampled_from([False, False, True]), min_size=n, max_size=n))
        vspec["vals"] = [None if z else v for v, z in zip(vspec["vals"], nulls)]
    return {"n": n, "warm": draw(S.warm()), "keys": draw(S.keys(n, nkeys=(1, 2), max_labels=4)), "vals": [vspec],
            "mask": draw(S.mask_spec(n)), "ddof": draw(st.sampled_from([0, 1])), "op": draw(st.sampled_from(["var", "std"])), "sort": True,
            "render": {"vc": vc, "kc": "np", "mc": "np"}}


def flags(case, groups, groups_all, labels):
    f = []
    if case["vals"][0].get("power", 0) >= 4:
        f.append("offset")
    if any(l is None for l in labels):
        f.append("null_key")
    if any(l not in groups for l in groups_all):
        f.append("masked_out_group")
    return f


def var_check(case, ctx):
    n, op, ddof = case["n"], case["op"], case["ddof"]
    vspec = case["vals"][0]
    keys, vals, mask, _ = gbops.render(case)
    gb = gbops.build(case, keys)
    res = getattr(gb, op)(vals[0], mask=mask, ddof=ddof)
    labels, pos, groups = gbops.model_groups(case)
    _, _, groups_all = gbops.model_groups(case, mask=None)
    pv = data.val_py(vspec)
    fl = flags(case, groups, groups_all, labels)
    small = any(len(model.nonnull([pv[p] for p in ps])) <= ddof for ps in groups.values())
    ctx.seen("var", case, len(groups_all) >= 2 and (bool(fl) or small), [f"op:{op}", f"ddof:{ddof}", f"dtype:{vspec['dtype']}",
                                                                         "mask:" + (case["mask"]["kind"] if case["mask"] else "none"), f"small_group:{small}",
                                                                         f"vc:{case.get('render', {}).get('vc', 'np')}"] + [f"flag:{x}" for x in fl])
    rl, got = gbops.result_to_dict(res, op)
    if set(rl) != set(groups):
        raise Violation(f"labels:{op}", f"{rl} vs {list(groups)}")
    eps = gbops.EPS32 if vspec["dtype"] == "float32" else gbops.EPS64
    for lab, ps in groups.items():
        gv = model.nonnull([pv[p] for p in ps])
        cnt = len(gv)
        V = model.variance(gv, ddof)
        g = got[lab]
        if V is None:
            if g is not None:
                raise Violation(f"{op}:too-few-values", f"label {lab}: {cnt} values, ddof={ddof}, expected null got {g!r}")
            continue
        bound = 8 * cnt * eps * model.sq_sum(gv) / max(1, cnt - ddof) + 1e-300
        if op == "var":
            if g is None or not abs(Fraction(g) - V) <= Fraction(bound):
                raise Violation("var:value", f"label {lab}: exact {float(V)!r} got {g!r} bound {bound!r} values {gv}")
        else:
            if g is None:
                if float(V) > bound:
                    raise Violation("std:nan", f"label {lab}: exact variance {float(V)!r} above bound {bound!r} but std is null")
            elif not abs(Fraction(g) ** 2 - V) <= Fraction(bound) + Fraction(g) ** 2 * Fraction(4 * eps):
                raise Violation("std:value", f"label {lab}: exact std {math.sqrt(float(V))!r} got {g!r}")


# ---------------------------------------------------------------------------
@st.composite
def quant_case(draw, variant):
    n = draw(st.sampled_from([1, 2, 3, 4, 5, 6, 8, 10, 12, 16, 20, 30]))
    vspec = draw(S.value_column(n, dtypes=("float64", "int64", "float32"), regime="exact"))
    if vspec["dtype"] == "int64":
        vspec["vals"] = [v % 2001 - 1000 for v in vspec["vals"]]
    return {"n": n, "warm": draw(S.warm()), "keys": draw(S.keys(n, nkeys=(1, 2), max_labels=4)), "vals": [vspec], "mask": draw(S.mask_spec(n, kinds=("none", "bool"))),
            "op": draw(st.sampled_from(["median", "quantile", "quantile"])), "sort": True,
            "q": draw(st.sampled_from([[0.5], [0.25, 0.75], [0.0, 1.0, 0.1], [0.3, 0.9, 0.6]]))}


def quant_check(case, ctx):
    n, op = case["n"], case["op"]
    vspec = case["vals"][0]
    keys, vals, mask, _ = gbops.render(case)
    gb = gbops.build(case, keys)
    labels, pos, groups = gbops.model_groups(case)
    _, _, groups_all = gbops.model_groups(case, mask=None)
    arr = data.val_numpy(vspec)
    ctx.seen("quantile", case, len(groups) >= 2 and (any(l is None for l in labels) or len(groups) < len(groups_all)),
             [f"q:op:{op}", "q:mask:" + ("bool" if case["mask"] else "none"), f"q:dtype:{vspec['dtype']}"])
    sk = gbops.label_sort_key(case)
    order = sorted(groups, key=sk)
    if op == "median":
        res = gb.median(vals[0], mask=mask)
        rl, got = gbops.result_to_dict(res, "median")
        if rl != order:
            raise Violation("median:labels", f"{rl} vs {order}")
        for lab in order:
            with np.errstate(all="ignore"):
                e = float(np.median(arr[groups[lab]]))
            e = None if math.isnan(e) else e
            if not ops.same_values([e], [got[lab]], 1e-12):
                raise Violation("median:value", f"label {lab}: numpy {e!r} got {got[lab]!r}")
        return
    q = case["q"]
    if not groups:
        gb.quantile(vals[0], q=q, mask=mask)
        return
    res = gb.quantile(vals[0], q=q, mask=mask)
    if not isinstance(res, pd.Series):
        raise Violation("quantile:shape", f"{type(res).__name__}")
    idx = data.index_labels(res.index)
    gvals = data.series_values(res)
    want_idx = [lab + (float(x),) for lab in order for x in q]
    if idx != want_idx:
        raise Violation("quantile:index", f"{idx[:8]} vs {want_idx[:8]}")
    j = 0
    for lab in order:
        with np.errstate(all="ignore"):
            e = np.quantile(arr[groups[lab]], q)
        for x in e:
            x = None if math.isnan(float(x)) else float(x)
            if not ops.same_values([x], [gvals[j]], 1e-12):
                raise Violation("quantile:value", f"label {lab}: numpy {x!r} got {gvals[j]!r}")
            j += 1
    if list(res.index.names)[-1] != "q":
        raise Violation("quantile:names", f"{list(res.index.names)}")


# ---------------------------------------------------------------------------
def f_scalar(a):
    return float(a[0]) * 2.0 + float(a[-1]) + float(np.dot(np.nan_to_num(a.astype(float)), np.arange(len(a))))


def f_fixed(a):
    return np.array([float(a[0]), float(a[-1]), float(len(a))])


def f_aligned(a):
    return a.astype(float) - float(a[0]) + np.arange(len(a))


FUNCS = {"scalar": f_scalar, "fixed": f_fixed, "aligned": f_aligned, "cumsum": np.cumsum}


@st.composite
def apply_case(draw, variant):
    n = draw(st.sampled_from([1, 2, 3, 4, 5, 6, 8, 10, 12, 16, 20]))
    vspec = draw(S.value_column(n, dtypes=("float64", "int64"), regime="exact", null_modes=["none"]))
    if vspec["dtype"] == "int64":
        vspec["vals"] = [v % 2001 - 1000 for v in vspec["vals"]]
    nv = draw(st.sampled_from([1, 1, 2]))
    vals = [vspec] + [dict(vspec, vals=[(x or 0) * 2 + 1 for x in vspec["vals"]]) for _ in range(nv - 1)]
    return {"n": n, "keys": draw(S.keys(n, nkeys=(1, 2), max_labels=4)), "vals": vals, "mask": draw(S.mask_spec(n, kinds=("none", "none", "bool"))),
            "func": draw(st.sampled_from(sorted(FUNCS))), "sort": draw(st.sampled_from([True, True, False])),
            "index": draw(st.sampled_from(["default", "shuffled"]))}


def apply_check(case, ctx):
    n = case["n"]
    f = FUNCS[case["func"]]
    keys = [data.render_key(k, "np") for k in case["keys"]]
    index = data.make_index(case["index"], n)
    arrs = [data.val_numpy(v) for v in case["vals"]]
    if len(arrs) == 1:
        values = pd.Series(arrs[0], index=index) if index is not None else arrs[0]
    else:
        values = {f"c{i}": (pd.Series(a, index=index) if index is not None else a) for i, a in enumerate(arrs)}
    mask = data.render_mask(case["mask"], n)
    gb = GroupBy(keys[0] if len(keys) == 1 else keys, sort=case["sort"])
    labels, pos, groups = gbops.model_groups(case)
    _, _, groups_all = gbops.model_groups(case, mask=None)
    ctx.seen("apply", case, len(groups) >= 2 and (any(l is None for l in labels) or len(groups) < len(groups_all) or case["func"] != "scalar"),
             [f"apply:func:{case['func']}", "apply:mask:" + ("bool" if case["mask"] else "none"), f"apply:ncols:{len(arrs)}", f"apply:sort:{case['sort']}"])
    if not groups:
        gb.apply(values, f, mask=mask)
        return
    res = gb.apply(values, f, mask=mask)
    sk = gbops.label_sort_key(case)
    single_cat = len(case["keys"]) == 1 and case["keys"][0]["t"] == "cat"
    order = sorted(groups, key=sk) if (case["sort"] or single_cat) else [l for l in groups_all if l in groups]
    cols = [res] if isinstance(res, pd.Series) else [res.iloc[:, i] for i in range(res.shape[1])]
    if len(cols) != len(arrs):
        raise Violation("apply:columns", f"{len(cols)} result columns for {len(arrs)} inputs")
    row_labels = data.index_labels(index) if index is not None else [(i,) for i in range(n)]
    for col, arr in zip(cols, arrs):
        idx = data.index_labels(col.index)
        got = data.series_values(col)
        exp_idx, exp_vals = [], []
        for lab in order:
            out = f(arr[groups[lab]])
            if np.ndim(out) == 0:
                exp_idx.append(lab)
                exp_vals.append(float(out))
            elif case["func"] == "fixed":
                for j, x in enumerate(out):
                    exp_idx.append(lab + (j,))
                    exp_vals.append(float(x))
            else:
                for p, x in zip(groups[lab], out):
                    exp_idx.append(lab + row_labels[p])
                    exp_vals.append(float(x))
        if case["mask"] is not None and case["sort"] is False:
            # label order under a mask with sort=False is not constrained (see C11)
            pairs_e = sorted(zip(exp_idx, exp_vals), key=repr)
            pairs_g = sorted(zip(idx, got), key=repr)
            exp_idx, exp_vals = [p[0] for p in pairs_e], [p[1] for p in pairs_e]
            idx, got = [p[0] for p in pairs_g], [p[1] for p in pairs_g]
        if idx != exp_idx:
            raise Violation(f"apply:index:{case['func']}", f"{idx[:8]} vs {exp_idx[:8]}")
        if not ops.same_values(exp_vals, got, 1e-12):
            raise Violation(f"apply:values:{case['func']}", f"{got[:8]} vs {exp_vals[:8]}")


# ---------------------------------------------------------------------------
@st.composite
def comp_case(draw, variant):
    n = draw(st.sampled_from([1, 2, 3, 4, 5, 6, 8, 10, 12, 16, 20]))
    which = draw(st.sampled_from(["agg", "ratio", "density", "density_values"]))
    nk = 1 if which.startswith("density") else draw(st.integers(1, 2))
    keys = [draw(S.key_column(n, max_labels=4)) for _ in range(nk)]
    v1 = draw(S.value_column(n, dtypes=("float64", "int64"), regime="exact"))
    if v1["dtype"] == "int64":
        v1["vals"] = [v % 2001 - 1000 for v in v1["vals"]]
    v2 = dict(v1, vals=[None if x is None else abs(x) + 1 for x in v1["vals"]])
    if which == "density_values":
        v1 = dict(v1, vals=[None if x is None else abs(x) + 1 for x in v1["vals"]])
    return {"n": n, "keys": keys, "vals": [v1, v2], "which": which, "mask": draw(S.mask_spec(n, kinds=("none", "none", "bool", "slice"))), "sort": True,
            # how the two value inputs are handed over: arrays, or pandas Series with the same / different / no names
            "names": draw(st.sampled_from(["np", "np", "same", "different", "unnamed"]))}


def comp_check(case, ctx):
    n, which = case["n"], case["which"]
    keys = [data.render_key(k, "np") for k in case["keys"]]
    a1, a2 = data.val_numpy(case["vals"][0]), data.val_numpy(case["vals"][1])
    nm_ = case.get("names", "np")
    if nm_ != "np":
        a1 = pd.Series(a1, name={"same": "price", "different": "num", "unnamed": None}[nm_])
        a2 = pd.Series(a2, name={"same": "price", "different": "den", "unnamed": None}[nm_])
    mask = data.render_mask(case["mask"], n)
    gb = GroupBy(keys[0] if len(keys) == 1 else keys)
    labels, pos, groups = gbops.model_groups(case)
    ctx.seen("composite", case, len(groups) >= 2, [f"comp:{which}", "comp:mask:" + (case["mask"]["kind"] if case["mask"] else "none"), f"comp:names:{nm_}"])
    if which == "agg":
        funcs = ["sum", "max", "count", "mean"]
        res = gb.agg(a1, agg_func=funcs, mask=mask)
        if not isinstance(res, pd.DataFrame) or list(res.columns) != funcs:
            raise Violation("agg:columns", f"{getattr(res, 'columns', type(res))}")
        for fn in funcs:
            single = getattr(gb, fn)(a1, mask=mask)
            ops.compare_norm(ops.normalise(res[fn]), ops.normalise(single), tol=1e-12, what=f"agg:{fn}", check_names=False)
    elif which == "ratio":
        res = gb.ratio(a1, a2, mask=mask)
        num, den = gb.sum(a1, mask=mask), gb.sum(a2, mask=mask)
        rl, got = gbops.result_to_dict(res, "ratio")
        _, nm = gbops.result_to_dict(num, "sum1")
        _, dm = gbops.result_to_dict(den, "sum2")
        if set(got) != set(nm):
            raise Violation("ratio:labels", f"{list(got)} vs {list(nm)}")
        for lab in got:
            d = dm[lab]
            e = None if (d is None or nm[lab] is None) else (nm[lab] / d if d != 0 else None)
            g = got[lab]
            if d == 0:
                continue  # x/0: inf or nan, both acceptable renderings of an undefined ratio
            if not ops.same_values([e], [g], 1e-12):
                raise Violation("ratio:value", f"label {lab}: sum/sum {e!r} got {g!r}")
    else:
        if not groups:
            return
        if which == "density":
            res = gb.density(mask=mask)
            tot = {l: float(len(ps)) for l, ps in groups.items()}
        else:
            res = gb.density(a1, mask=mask)
            pv = data.val_py(case["vals"][0])
            tot = {l: float(model.fsum([pv[p] for p in ps])) for l, ps in groups.items()}
        rl, got = gbops.result_to_dict(res, "density")
        if set(got) != set(tot):
            raise Violation("density:labels", f"{list(got)} vs {list(tot)}")
        total = sum(tot.values())
        if total == 0:
            return
        for lab in got:
            e = 100.0 * tot[lab] / total
            if not ops.same_values([e], [got[lab]], 1e-9):
                raise Violation("density:value", f"label {lab}: share {e!r} got {got[lab]!r}")
        s = sum(v for v in got.values() if v is not None)
        if abs(s - 100.0) > 1e-6:
            raise Violation("density:sum", f"densities add up to {s!r}")


SUBS = [
    Sub("var", var_check, strategy=lambda tier, v: var_case(v), variants=("-",), examples=(8000, 160000), replicas=(6, 16), cost={"-": 400}),
    Sub("quantile", quant_check, strategy=lambda tier, v: quant_case(v), variants=("-",), examples=(4000, 80000), replicas=(3, 8), cost={"-": 250}),
    Sub("apply", apply_check, strategy=lambda tier, v: apply_case(v), variants=("-",), examples=(4000, 80000), replicas=(4, 8), cost={"-": 300}),
    Sub("composite", comp_check, strategy=lambda tier, v: comp_case(v), variants=("-",), examples=(3000, 60000), replicas=(3, 8), cost={"-": 250}),
]
