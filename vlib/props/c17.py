"""C17 The pandas-style facade agrees with the core engine and with pandas (differential)."""
import numpy as np
import pandas as pd
from hypothesis import strategies as st

from groupby_lib import GroupBy
from groupby_lib.groupby import api

from .. import data, ops
from ..core import Sub, Violation

RULE = (
    "Hypothesis generates a DataFrame (n <= 16) with key columns (int / str / float with nulls) and numeric, boolean "
    "and temporal value columns holding non-positive values and nulls, under an index that is default, shuffled, "
    "duplicated, string or a MultiIndex; `by` is a column name, a list of names, an array, a Series, an index level or "
    "a mixture; the object is the frame, a column selection via [] (name or list) or a Series; the method is one of "
    "sum/mean/min/max/count/size/std/var/first/last/median, cumsum/cummin/cummax/cumcount, rolling(window, "
    "min_periods).sum/mean/min/max, head/tail/nth, agg(str), apply, ema, iteration and groups.  Non-trivial = the "
    "index is not the default one, or a [] selection is used, or a null key/value is present.  Distinct = case hash."
)
ORACLE = ("(1) facade result == GroupBy(keys).<op>(selected value columns); (2) for sum/mean/min/max/count/size/std/var/"
          "first/last == obj.groupby(...) in pandas, cumulative and rolling results compared with pandas at rows holding a "
          "non-null value and a non-null key; (3) key columns are absent from the output; (4) cumcount == 0.. per group; "
          "(5) iteration yields every label once with obj.iloc[positions]")
ASSUMPTIONS = [
    "datetime cummin/cummax are not compared with pandas when a key is null: pandas 3.0 returns NaT for rows after a null-key "
    "row there (pd.Series([t0,NaT,t1]).groupby(['b',None,'b']).cummin() -> all NaT), so it cannot serve as the oracle","pandas' own groupby (dropna=True, sort=True, observed=True) is the trusted oracle for relation (2)",
               "dtype differences between the facade and pandas are normalised away (values compared with rel 1e-9)"]

METHODS = ("sum", "mean", "min", "max", "count", "size", "std", "var", "first", "last", "median", "cumsum", "cummin", "cummax", "cumcount",
           "rolling_sum", "rolling_mean", "rolling_min", "rolling_max", "head", "tail", "nth", "agg_sum", "apply_max", "ema", "iter", "groups")


@st.composite
def case_strategy(draw, variant):
    n = draw(st.integers(1, 16))
    k1 = draw(st.lists(st.sampled_from([3, 1, 2]), min_size=n, max_size=n))
    k2 = draw(st.lists(st.sampled_from(["b", "a", None]) if variant == "n" else st.sampled_from(["b", "a"]), min_size=n, max_size=n))
    fl = draw(st.lists(st.one_of(st.none(), st.integers(-40, 40).map(lambda k: k / 4)), min_size=n, max_size=n))
    it = draw(st.lists(st.integers(-5, 5), min_size=n, max_size=n))
    bo = draw(st.lists(st.booleans(), min_size=n, max_size=n))
    dt = draw(st.lists(st.one_of(st.none(), st.integers(0, 1000)), min_size=n, max_size=n))
    by = draw(st.sampled_from(["k1", "k2", ["k1", "k2"], "array", "series", "series_named_like_column", "k1+series_named_like_column",
                               "level", "level+col", "k1+array"]))
    index = draw(st.sampled_from(["default", "shuffled", "dup", "str", "multi"]))
    if by in ("level", "level+col"):
        # level names: strings, or integers that are valid positions but do not name their own position (pandas resolves names first)
        index = draw(st.sampled_from(["multi", "multi", "multi_intnames"]))
    obj = draw(st.sampled_from(["frame", "frame", "col", "cols", "series"]))
    method = draw(st.sampled_from(METHODS))
    temporal = draw(st.sampled_from([False, False, True])) and method in ("min", "max", "first", "last", "count", "size", "cummin", "cummax")
    return {"n": n, "k1": k1, "k2": k2, "fl": fl, "it": it, "bo": bo, "dt": dt, "by": by, "index": index, "obj": obj, "method": method,
            "temporal": temporal, "prior_use": draw(st.sampled_from(["none", "none", "count", "size", "sum_it"])), "window": draw(st.integers(1, 3)), "min_periods": draw(st.sampled_from([None, 1, 0])), "narg": draw(st.integers(0, 3))}


def build(case):
    n = case["n"]
    idx = data.make_index(case["index"], n)
    cols = {"k1": np.array(case["k1"], dtype=np.int64), "k2": np.array(case["k2"], dtype=object),
            "fl": np.array([np.nan if v is None else v for v in case["fl"]], dtype=float),
            "it": np.array(case["it"], dtype=np.int64)}
    if case["temporal"]:
        cols["dt"] = np.array([np.iinfo("i8").min if v is None else 10**17 + v * 10**9 for v in case["dt"]], dtype="i8").view("M8[ns]")
    else:
        cols["bo"] = np.array(case["bo"], dtype=bool)
    df = pd.DataFrame(cols, index=idx)
    if case["index"] in ("multi", "multi_intnames"):
        df.index = pd.MultiIndex.from_arrays([[i % 2 for i in range(n)], [f"x{i}" for i in range(n)]],
                                             names=["lv", "b"] if case["index"] == "multi" else [1, 0])
    return df


def resolve_by(case, df):
    """-> (kwargs for groupby_fast / pandas groupby, list of key arrays for the core engine, key column names)"""
    by = case["by"]
    ext = np.array([(7 if v == 1 else v) for v in case["k1"]], dtype=np.int64)  # an external key array
    if by in ("k1", "k2"):
        return {"by": by}, [df[by]], [by]
    if isinstance(by, list):
        return {"by": list(by)}, [df[c] for c in by], list(by)
    if by == "array":
        return {"by": ext}, [ext], []
    if by == "series":
        return {"by": pd.Series(ext, index=df.index, name="ext")}, [pd.Series(ext, index=df.index, name="ext")], []
    if by == "series_named_like_column":
        # a derived key that merely carries the NAME of a value column: that column is still a value column (pandas semantics)
        s_ = pd.Series(ext, index=df.index, name="it")
        return {"by": s_}, [s_], []
    if by == "k1+series_named_like_column":
        s_ = pd.Series(ext, index=df.index, name="fl")
        return {"by": ["k1", s_]}, [df["k1"], s_], ["k1"]
    lv = "lv" if case["index"] != "multi_intnames" else 1  # the level NAMED 1 is the first level (positions are 0, 1)
    first_level = df.index.get_level_values(df.index.names[0]) if isinstance(df.index, pd.MultiIndex) else None
    if by == "level":
        return {"level": lv}, [first_level], []
    if by == "level+col":
        return {"by": "k1", "level": lv}, [df["k1"], first_level], ["k1"]
    if by == "k1+array":
        return {"by": ["k1", ext]}, [df["k1"], ext], ["k1"]
    raise ValueError(by)


def select(case, df, keycols):
    """-> (selection spec applied after groupby, the value object the core engine should receive)"""
    # string columns are not aggregated by the library (numeric-only by design): they are not value columns
    vcols = [c for c in df.columns if c not in keycols and c not in ("k2",)]
    if case["obj"] == "frame":
        return None, df[vcols]
    if case["obj"] == "col":
        c = "fl" if "fl" in vcols else vcols[0]
        return c, df[c]
    if case["obj"] == "cols":
        cs = [c for c in ("it", "fl") if c in vcols]
        return cs, df[cs]
    return "series", df["fl"]


def norm(res):
    return ops.normalise(res)


def compare(a, b, what, tol=1e-9, names=False):
    ops.compare_norm(norm(a), norm(b), tol=tol, what=what, check_names=names)


def facade_object(case, df, gkw, sel):
    if sel == "series":
        kw = dict(gkw)
        if isinstance(kw.get("by"), (str, list)):
            # a Series has no columns: hand the key arrays over instead
            by = kw["by"]
            kw["by"] = [df[c] if isinstance(c, str) else c for c in (by if isinstance(by, list) else [by])]
            if len(kw["by"]) == 1:
                kw["by"] = kw["by"][0]
        return api.SeriesGroupBy._from_by_keys(df["fl"], **kw)
    g = api.DataFrameGroupBy._from_by_keys(df, **gkw)
    prior = case.get("prior_use", "none")
    if prior == "count":
        g.count()  # the parent object has been used before the selection is taken from it
    elif prior == "size":
        g.size()
    elif prior == "sum_it":
        g[["it"]].sum()
    return g if sel is None else g[sel]


def pandas_object(case, df, keys, core_values):
    """pandas' own groupby over exactly the selected value columns, keyed by the resolved key arrays (by position)."""
    ks = []
    for i, k in enumerate(keys):
        name = getattr(k, "name", None)
        ks.append(pd.Series(np.asarray(k, dtype=object) if not isinstance(k, (pd.Series, pd.Index)) else np.asarray(k), index=core_values.index, name=name))
    ks = [k.astype("int64") if k.dtype == object and all(isinstance(x, (int, np.integer)) for x in k) else k for k in ks]
    return core_values.groupby(ks if len(ks) > 1 else ks[0])


def check(case, ctx):
    df = build(case)
    n = case["n"]
    gkw, keys, keycols = resolve_by(case, df)
    sel, core_values = select(case, df, keycols)
    method = case["method"]
    has_null = df["k2"].isna().any() or df["fl"].isna().any()
    ctx.seen("facade", case, case["index"] != "default" or sel is not None or bool(has_null),
             [f"method:{method}", f"by:{case['by'] if isinstance(case['by'], str) else '+'.join(case['by'])}", f"index:{case['index']}", f"obj:{case['obj']}",
              f"temporal:{case['temporal']}", f"prior_use:{case.get('prior_use', 'none')}"])
    fg = facade_object(case, df, gkw, sel)
    core = GroupBy(keys[0] if len(keys) == 1 else keys)
    pg = pandas_object(case, df, keys, core_values)
    null_key = np.zeros(n, dtype=bool)
    for k in keys:
        null_key |= pd.isna(np.asarray(k, dtype=object))
    is_frame = isinstance(core_values, pd.DataFrame)
    numeric_only = [c for c in (core_values.columns if is_frame else [])]

    def key_columns_absent(res):
        if isinstance(res, pd.DataFrame):
            bad = [c for c in res.columns if c in keycols]
            if bad:
                raise Violation(f"key-column-aggregated:{method}", f"columns {bad} are grouping keys but appear in the result {list(res.columns)}")
            want = list(core_values.columns) if is_frame else None
            if want is not None and list(res.columns) != want:
                raise Violation(f"column-selection-ignored:{method}", f"result columns {list(res.columns)}, selected value columns {want}")
        elif isinstance(res, pd.Series) and is_frame and sel is not None and method not in ("size", "cumcount", "iter", "groups"):
            raise Violation(f"column-selection-ignored:{method}", f"selection {sel} gave a Series")

    if method in ("sum", "mean", "min", "max", "count", "std", "var", "first", "last", "median"):
        temporal_cols = case["temporal"]
        if temporal_cols and method in ("sum", "mean", "std", "var", "median"):
            return
        if method == "median" and not case["temporal"] and is_frame and "bo" in core_values.columns:
            core_values = core_values.drop(columns=["bo"])
            fg = facade_object(case, df, gkw, [c for c in core_values.columns]) if sel is None or isinstance(sel, list) else fg
            pg = pandas_object(case, df, keys, core_values)
        res = getattr(fg, method)()
        key_columns_absent(res)
        compare(res, getattr(core, method)(core_values), f"facade-vs-core:{method}")
        if method != "median":
            exp = getattr(pg, method)()
            compare(res, exp, f"facade-vs-pandas:{method}")
        return
    if method == "size":
        res = fg.size()
        compare(res, core.size(), "facade-vs-core:size")
        exp = pg.size()
        a, b = norm(res), norm(exp)
        if a["index"] != b["index"] or not ops.same_values(a["values"], b["values"] if b["type"] == "pd.Series" else b["data"][0], 0):
            raise Violation("facade-vs-pandas:size", f"{a} vs {b}")
        return
    if method in ("cumsum", "cummin", "cummax"):
        if case["temporal"] and method == "cumsum":
            return
        res = getattr(fg, method)()
        key_columns_absent(res)
        compare(res, getattr(core, method)(core_values), f"facade-vs-core:{method}")
        if case["temporal"] and null_key.any():
            return  # pandas itself returns NaT for datetime cummin/cummax rows after a null KEY (pandas defect): no oracle
        exp = getattr(pg, method)()
        for col in ([None] if isinstance(res, pd.Series) else list(res.columns)):
            r = res if col is None else res[col]
            e = exp if col is None else exp[col]
            src = core_values if col is None else core_values[col]
            rv, ev = data.series_values(r), data.series_values(e)
            for i in range(n):
                if null_key[i] or pd.isna(src.iloc[i]):
                    continue
                if not ops.same_values([rv[i]], [ev[i]], 1e-9):
                    raise Violation(f"facade-vs-pandas:{method}", f"column {col} row {i}: facade {rv[i]!r} pandas {ev[i]!r}")
        return
    if method == "cumcount":
        res = fg.cumcount()
        rv = data.series_values(res) if isinstance(res, pd.Series) else None
        if rv is None or len(rv) != n:
            raise Violation("cumcount:shape", f"{type(res).__name__}")
        ev = data.series_values(pg.cumcount())
        for i in range(n):
            if not null_key[i] and rv[i] != ev[i]:
                raise Violation("cumcount", f"row {i}: facade {rv[i]!r} pandas {ev[i]!r}")
        return
    if method.startswith("rolling_"):
        if case["temporal"]:
            return
        fn = method[8:]
        w, mp = case["window"], case["min_periods"]
        res = getattr(fg.rolling(w, mp), fn)()
        key_columns_absent(res)
        cv = core_values.drop(columns=[c for c in ("bo",) if is_frame and c in core_values.columns]) if is_frame else core_values
        if is_frame and "bo" in core_values.columns:
            return  # boolean columns are not a rolling input
        compare(res, getattr(core, method)(cv, window=w, min_periods=mp if mp is not None else w), f"facade-vs-core:{method}")
        for col in ([None] if isinstance(res, pd.Series) else list(res.columns)):
            r = res if col is None else res[col]
            src = cv if col is None else cv[col]
            kser = [pd.Series(np.asarray(k, dtype=object), index=src.index) for k in keys]
            e = src.groupby([k.to_numpy() for k in kser]).transform(lambda s: getattr(s.rolling(w, min_periods=mp), fn)())
            rv, ev = data.series_values(r), data.series_values(e)
            for i in range(n):
                if null_key[i] or pd.isna(src.iloc[i]):
                    continue
                if not ops.same_values([rv[i]], [ev[i]], 1e-9):
                    raise Violation(f"facade-vs-pandas:{method}", f"column {col} row {i}: facade {rv[i]!r} pandas {ev[i]!r}")
        return
    if method in ("head", "tail", "nth"):
        if is_frame and sel is None:
            # row selection returns every non-key column (strings included), as pandas does
            core_values = df[[c for c in df.columns if c not in keycols]]
        res = getattr(fg, method)(case["narg"])
        exp = getattr(core, method)(core_values, case["narg"], keep_input_index=True)
        key_columns_absent(res)
        compare(res, exp, f"facade-vs-core:{method}")
        return
    if method == "agg_sum":
        res = fg.agg("sum")
        key_columns_absent(res)
        compare(res, core.sum(core_values), "facade-vs-core:agg")
        return
    if method == "apply_max":
        if case["temporal"] or (is_frame and "bo" in core_values.columns):
            return
        res = fg.apply(np.nanmax)
        key_columns_absent(res)
        compare(res, core.apply(core_values, np.nanmax), "facade-vs-core:apply")
        return
    if method == "ema":
        if case["temporal"] or (is_frame and "bo" in core_values.columns):
            return
        res = fg.ema(alpha=0.5)
        key_columns_absent(res)
        compare(res, core.ema(core_values, alpha=0.5), "facade-vs-core:ema")
        return
    if method in ("iter", "groups"):
        groups = core.groups
        if method == "groups":
            fgroups = fg.groups
            if {data.norm_scalar(k): list(map(int, v)) for k, v in fgroups.items()} != {data.norm_scalar(k): list(map(int, v)) for k, v in groups.items()}:
                raise Violation("groups", "facade groups differ from the core engine's")
            if fg.ngroups != core.ngroups:
                raise Violation("ngroups", f"{fg.ngroups} vs {core.ngroups}")
            return
        seen = []
        target = df["fl"] if sel == "series" else (df if sel is None else df[sel] if isinstance(sel, str) else df)
        for label, chunk in fg:
            lab = data.norm_scalar(label)
            seen.append(lab)
            pos = None
            for k, v in groups.items():
                if data.norm_scalar(k) == lab:
                    pos = list(map(int, v))
            if pos is None:
                raise Violation("iter:label", f"label {label!r} is not a group")
            want = fg._obj.iloc[pos]
            if not chunk.equals(want):
                raise Violation("iter:rows", f"group {label!r}: iteration yields\n{chunk}\nexpected rows at positions {pos}\n{want}")
        if sorted(seen, key=repr) != sorted((data.norm_scalar(k) for k in groups), key=repr):
            raise Violation("iter:labels", f"iterated labels {seen} vs groups {list(groups)}")
        return
    raise ValueError(method)


SUBS = [
    Sub("facade", check, strategy=lambda tier, v: case_strategy(v), variants=("n", "x"), examples=(8000, 160000), replicas=(8, 8),
        cost={"n": 500, "x": 500}),
]
