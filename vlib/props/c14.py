"""C14 Margins and cross-tabulation totals equal the aggregate of what they summarise (model-based)."""
import itertools

import numpy as np
import pandas as pd
from hypothesis import strategies as st

from groupby_lib import GroupBy, crosstab

from .. import data, gbops, model
from .. import strategies as S
from ..core import Sub, Violation

RULE = (
    "Hypothesis generates 1-3 keys (int/str/float/bool/datetime/categorical, nulls allowed) with SPARSE label "
    "combinations (n <= 24 rows over up to 4x4x3 labels), a float or int value column with nulls, a mask, an "
    "aggregation in {sum,count,size,min,max,mean}, optionally a second value column with a different null pattern, and "
    "margins in {True, every non-empty subset of levels}; for "
    "crosstab 1-2 row keys and 1-2 column keys, margins in {False, True, 'row', 'column'} and an aggfunc.  "
    "Non-trivial = >= 2 keys with a missing label combination and groups of unequal count (so that a mean of means "
    "differs from the true mean).  Distinct = case hash."
)
ORACLE = ("reference model: ordinary rows == result without margins; every 'All' combination == aggregation over all "
          "selected non-null-key rows matching its concrete components (mean = total sum / total count); the index is "
          "exactly observed combinations + non-empty 'All' combinations restricted to the requested levels; crosstab "
          "cell == aggregation of that (row key, column key) cell, absent -> null, margins == one-way aggregations")
ASSUMPTIONS = [
    "an 'All' row over an empty selection may be listed with the neutral value (allowed, not demanded)",
    "row ORDER is not constrained by this property",
    "key labels never equal the reserved margin label 'All'",
]
ALL = "All"
AGGS = ("sum", "count", "size", "min", "max", "mean")


@st.composite
def keys_strategy(draw, n, nk):
    keys = []
    for i in range(nk):
        keys.append(draw(S.key_column(n, types=("int", "str", "float", "bool", "dt", "cat"), max_labels=4 if i < 2 else 3,
                                      name=draw(st.sampled_from([None, f"k{i}"])))))
    return keys


@st.composite
def margin_case(draw, variant):
    n = draw(st.sampled_from([1, 2, 3, 4, 6, 8, 10, 12, 16, 24]))
    nk = draw(st.integers(1, 3))
    keys = draw(keys_strategy(n, nk))
    vspec = draw(S.value_column(n, dtypes=("float64", "int64", "float32") if variant == "n" else ("float64",), regime="exact"))
    if vspec["dtype"] == "int64":
        vspec["vals"] = [v % 2001 - 1000 for v in vspec["vals"]]
    agg = draw(st.sampled_from(AGGS))
    vals = [vspec]
    if agg != "size" and draw(st.sampled_from([False, False, True])):
        v2 = draw(S.value_column(n, dtypes=("float64",), regime="exact", null_modes=["some", "heavy"]))
        vals = [dict(vspec, name="a"), dict(v2, name="b")]
    if nk == 1:
        margins = True
    else:
        subsets = [list(c) for r in range(1, nk + 1) for c in itertools.combinations(range(nk), r)]
        margins = draw(st.sampled_from([True] + subsets))
    return {"n": n, "keys": keys, "vals": vals, "agg": agg, "margins": margins, "sort": True,
            "prior_margins": draw(st.one_of(st.none(), st.none(), st.lists(st.booleans(), min_size=1, max_size=6))),
            "mask": draw(S.mask_spec(n, kinds=("none", "none", "bool", "slice")))}


def matching(labels, pos, pattern):
    return [p for p in pos if labels[p] is not None and all(c == ALL or labels[p][i] == c for i, c in enumerate(pattern))]


def agg_value(agg, vals, rows):
    if agg == "size":
        return len(rows)
    return model.reduce(agg, [vals[p] for p in rows])


def expected_table(case, levels):
    """{label tuple with 'All' components: (value, rows)} for all observed and marginal combinations."""
    n = case["n"]
    labels = gbops.labels_of(case)
    pos = model.select(n, case["mask"])
    vals = data.val_py(case["vals"][0])
    nk = len(case["keys"])
    observed = list(dict.fromkeys(labels[p] for p in pos if labels[p] is not None))
    out = {}
    for lab in observed:
        out[lab] = matching(labels, pos, lab)
    for r in range(1, len(levels) + 1):
        for subset in itertools.combinations(levels, r):
            for lab in observed:
                pat = tuple(ALL if i in subset else c for i, c in enumerate(lab))
                if pat not in out:
                    out[pat] = matching(labels, pos, pat)
    return out, labels, pos, vals


def check_value(agg, vspec, exp, got, gvals, what):
    if agg == "size":
        ok = got is not None and float(got) == float(exp)
    else:
        ok = gbops.value_matches(agg, vspec, exp, got, gvals)
    if not ok:
        raise Violation(f"value:{agg}", f"{what}: expected {exp!r} got {got!r}")


def _prior_margins(gb, case, n, m):
    """An earlier margins call on the same grouping object whose mask observes other groups (every third case)."""
    if n and case.get("prior_margins"):
        pm = np.array((case["prior_margins"] * n)[:n], dtype=bool)
        gb.sum(np.arange(n, dtype=float), mask=pm, margins=m)


def margin_check(case, ctx):
    if len(case["vals"]) > 1:
        return margin_check_multi(case, ctx)
    n, agg = case["n"], case["agg"]
    nk = len(case["keys"])
    keys = [data.render_key(k, "np") if k.get("name") is None else data.render_key(k, "series") for k in case["keys"]]
    vspec = case["vals"][0]
    values = data.render_val(vspec, "np")
    mask = data.render_mask(case["mask"], n)
    gb = GroupBy(keys[0] if nk == 1 else keys)
    m = case["margins"]
    _prior_margins(gb, case, n, m)
    res = gb.size(mask=mask, margins=m) if agg == "size" else getattr(gb, agg)(values, mask=mask, margins=m)
    levels = list(range(nk)) if m is True else list(m)
    table, labels, pos, vals = expected_table(case, levels)
    observed = [l for l in table if ALL not in l]
    sizes = [len(table[l]) for l in observed]
    full = 1
    for i in range(nk):
        full *= len({l[i] for l in observed}) or 1
    nt = nk >= 2 and len(observed) < full and len(set(sizes)) > 1
    ctx.seen("margins", case, nt, [f"agg:{agg}", f"nkeys:{nk}", f"margins:{'all' if m is True else 'subset'}", "mask:" + (case["mask"]["kind"] if case["mask"] else "none"),
                                   f"sparse:{len(observed) < full}"] + [f"keytype:{k['t']}" for k in case["keys"]])
    if not isinstance(res, pd.Series):
        raise Violation("shape", f"expected Series, got {type(res).__name__}")
    got_labels = data.index_labels(res.index)
    got = dict(zip(got_labels, data.series_values(res)))
    if len(got) != len(got_labels):
        raise Violation("labels:duplicate", f"{got_labels}")
    missing = [l for l in table if l not in got]
    extra = [l for l in got if l not in table]
    # an 'All' row over an empty selection may be listed (neutral value)
    extra = [l for l in extra if not (ALL in l and not matching(labels, pos, l))]
    if missing or extra:
        raise Violation(f"labels:{agg}", f"missing {missing} unexpected {extra}; got {got_labels}")
    for lab, rows in table.items():
        exp = agg_value(agg, vals, rows)
        check_value(agg, vspec, exp, got[lab], [vals[p] for p in rows], f"label {lab}")
    # ordinary rows unchanged w.r.t. the call without margins
    plain = gb.size(mask=mask) if agg == "size" else getattr(gb, agg)(values, mask=mask)
    pl_labels = data.index_labels(plain.index)
    for lab, v in zip(pl_labels, data.series_values(plain)):
        if lab not in got or not (got[lab] == v or (got[lab] is None and v is None) or
                                  (isinstance(v, float) and got[lab] is not None and abs(got[lab] - v) <= 1e-12 * max(1, abs(v)))):
            raise Violation(f"ordinary-row-changed:{agg}", f"label {lab}: {v!r} without margins, {got.get(lab)!r} with")


def margin_check_multi(case, ctx):
    """Several value columns: every column of the result must equal the single-column call (incl. its margins)."""
    n, agg = case["n"], case["agg"]
    nk = len(case["keys"])
    keys = [data.render_key(k, "np") for k in case["keys"]]
    mask = data.render_mask(case["mask"], n)
    gb = GroupBy(keys[0] if nk == 1 else keys)
    m = case["margins"]
    _prior_margins(gb, case, n, m)
    values = {v["name"]: data.render_val(v, "np") for v in case["vals"]}
    res = getattr(gb, agg)(values, mask=mask, margins=m)
    ctx.seen("margins", case, nk >= 2, [f"agg:{agg}", f"nkeys:{nk}", "margins:multi-column", "mask:" + (case["mask"]["kind"] if case["mask"] else "none")])
    if not isinstance(res, pd.DataFrame) or list(res.columns) != list(values):
        raise Violation("shape:multi", f"expected a DataFrame with columns {list(values)}, got {type(res).__name__} {getattr(res, 'columns', '')}")
    levels = list(range(nk)) if m is True else list(m)
    for vspec in case["vals"]:
        single = dict(case, vals=[vspec])
        table, labels, pos, vals = expected_table(single, levels)
        col = res[vspec["name"]]
        got = dict(zip(data.index_labels(col.index), data.series_values(col)))
        for lab, rows in table.items():
            if lab not in got:
                raise Violation(f"labels:{agg}", f"column {vspec['name']}: label {lab} missing")
            exp = agg_value(agg, vals, rows)
            check_value(agg, vspec, exp, got[lab], [vals[p] for p in rows], f"column {vspec['name']} label {lab}")


# ---------------------------------------------------------------------------
@st.composite
def crosstab_case(draw, variant):
    n = draw(st.sampled_from([1, 2, 3, 4, 6, 8, 10, 12, 16, 24]))
    nr, nc = draw(st.integers(1, 2)), draw(st.integers(1, 2))
    keys = draw(keys_strategy(n, nr + nc))
    vspec = draw(S.value_column(n, dtypes=("float64", "int64"), regime="exact"))
    if vspec["dtype"] == "int64":
        vspec["vals"] = [v % 2001 - 1000 for v in vspec["vals"]]
    agg = draw(st.sampled_from(("sum", "count", "size", "min", "max", "mean")))
    return {"n": n, "keys": keys, "nr": nr, "vals": [vspec], "agg": agg, "sort": True,
            "margins": draw(st.sampled_from([False, True, "row", "column"])),
            "mask": draw(S.mask_spec(n, kinds=("none", "none", "bool")))}


def crosstab_check(case, ctx):
    n, agg, nr = case["n"], case["agg"], case["nr"]
    nk = len(case["keys"])
    objs = [data.render_key(k, "np") for k in case["keys"]]
    rows_arg = objs[0] if nr == 1 else objs[:nr]
    cols_arg = objs[nr] if nk - nr == 1 else objs[nr:]
    vspec = case["vals"][0]
    mask = data.render_mask(case["mask"], n)
    m = case["margins"]
    if agg == "size":
        tab = crosstab(rows_arg, cols_arg, mask=mask, margins=m)
    else:
        tab = crosstab(rows_arg, cols_arg, data.render_val(vspec, "np"), aggfunc=agg, mask=mask, margins=m)
    levels = []
    if m in (True, "row"):
        levels += list(range(nr))
    if m in (True, "column"):
        levels += list(range(nr, nk))
    table, labels, pos, vals = expected_table(case, levels)
    observed = [l for l in table if ALL not in l]
    ctx.seen("crosstab", case, len(observed) >= 3 and len({len(table[l]) for l in observed}) > 1,
             [f"ct:agg:{agg}", f"ct:margins:{m}", f"ct:nr:{nr}", f"ct:nc:{nk - nr}", "ct:mask:" + (case["mask"]["kind"] if case["mask"] else "none")])
    if not observed:
        return
    if not isinstance(tab, pd.DataFrame):
        raise Violation("ct:shape", f"expected DataFrame, got {type(tab).__name__}")
    row_labels = data.index_labels(tab.index)
    col_labels = data.index_labels(tab.columns)
    cells = {}
    for j, c in enumerate(col_labels):
        colvals = data.series_values(tab.iloc[:, j])
        for r, v in zip(row_labels, colvals):
            cells[r + c] = v
    for lab, rows in table.items():
        if lab not in cells:
            raise Violation(f"ct:missing-cell:{agg}", f"cell {lab} missing; rows {row_labels} cols {col_labels}")
        exp = agg_value(agg, vals, rows)
        check_value(agg, vspec, exp, cells[lab], [vals[p] for p in rows], f"cell {lab}")
    for lab, v in cells.items():
        if lab not in table and v is not None:
            if ALL in lab and not matching(labels, pos, lab):
                continue
            raise Violation(f"ct:invented-cell:{agg}", f"cell {lab} = {v!r} but no selected row has that combination")


SUBS = [
    Sub("margins", margin_check, strategy=lambda tier, v: margin_case(v), variants=("n",), examples=(9000, 160000),
        replicas=(10, 16), cost={"n": 600}),
    Sub("crosstab", crosstab_check, strategy=lambda tier, v: crosstab_case(v), variants=("n",), examples=(5000, 100000),
        replicas=(6, 16), cost={"n": 400}),
]
