"""C13 A GroupBy object can be reused: results are history-independent (stateful / rule-based)."""
import json

import hypothesis
import numpy as np
import pandas as pd
from hypothesis import HealthCheck, Phase, settings
from hypothesis import strategies as st
from hypothesis.stateful import RuleBasedStateMachine, initialize, invariant, rule, run_state_machine_as_test

from groupby_lib import GroupBy

from .. import data, gbops, ops
from .. import strategies as S
from ..core import HarnessError, Sub, Violation, bucket_of, canon, classify_exception, match_known, save_replay
from .c02 import labels_from_index, logical_codes

RULE = (
    "Hypothesis RuleBasedStateMachine: initialize draws the keys (n <= 24), the key representation (contiguous NumPy / "
    "pandas; chunk-wise with pointer tables via the scaled-down threshold, 1..5 chunks; partially monotonic; pre-chunked "
    "Arrow), sort and a thread count; every rule is one public operation with freshly generated values / mask / "
    "parameters (the whole op registry: reductions with all mask kinds, var/std/median/quantile/agg, transform "
    "variants, size/count, groups, key_count, head/tail/nth, cumulative, rolling, shift/diff, ema row- and "
    "time-weighted, apply, margins, GroupBy(gb) copies (used once, or kept as a twin that is operated on later), "
    "class-level calls GroupBy.op(raw_keys, ...), and re-use of one mask buffer refilled in place).  Up to 12 steps per machine.  Non-trivial = the history contains a re-layout or "
    "cache-filling operation (transform, row selection, cumulative/rolling, groups, apply, ema) followed by >= 1 "
    "reduction with a slice or positional mask, on a chunk-wise representation.  Distinct = hash of the history."
)
ORACLE = ("every call == the same call on a FRESH GroupBy built from the same raw keys under the same configuration "
          "(exact; sums/means within rel 1e-9); invariant after every step: label set, ngroups and logical codes unchanged")
ASSUMPTIONS = ["the fresh object is built under the same harness shims, so only the history differs"]

RELAYOUT = {"groups", "apply_max", "median", "quantile", "head", "tail", "nth", "cumsum", "cummin", "cummax", "cumcount", "rolling_sum",
            "rolling_mean", "rolling_min", "rolling_max", "shift", "diff", "ema", "ema_timed"}
EXTRA = ("groups", "key_count", "copy_then_sum", "classlevel_sum", "sum_margins", "same_buffer_mask", "make_twin", "twin_sum", "twin_cumsum",
         "quantile_scalar_frame", "count_nullable_int")


def build_gb(cfg, keys_spec):
    if cfg["layout"] == "prechunked":
        obj = data.render_key(dict(keys_spec[0], chunks=cfg["chunks"]), "pa_chunked")
    else:
        objs = [data.render_key(k, cfg.get("kc", "np")) for k in keys_spec]
        obj = objs[0] if len(objs) == 1 else objs
    with gbops.Shims(threshold=cfg.get("threshold"), key_chunks=cfg.get("key_chunks")):
        gb = GroupBy(obj, sort=cfg["sort"])
        gb.result_index
    return gb, obj


def run_step(gb, raw_keys, step, cfg, buffers):
    op = step["op"]
    n = cfg["n"]
    values = data.render_val(step["vals"], "np") if step.get("vals") else None
    mask = data.render_mask(step.get("mask"), n)
    with gbops.Shims(threads=cfg.get("threads")):
        if op in ops.OPS:
            o = ops.OPS[op]
            return o.call(gb, values if o.needs_values else None, mask, dict(step.get("kw", {})))
        if op == "groups":
            return {data.norm_scalar(k): [int(x) for x in v] for k, v in gb.groups.items()}
        if op == "key_count":
            return gb.key_count
        if op == "copy_then_sum":
            return GroupBy(gb).sum(values, mask=mask)
        if op == "make_twin":
            # a copy that lives on: later operations on either object must not disturb the other
            buffers["twin"] = GroupBy(gb)
            return gb.size()
        if op in ("twin_sum", "twin_cumsum"):
            twin = buffers.get("twin") or gb
            return twin.sum(values, mask=mask) if op == "twin_sum" else twin.cumsum(values, mask=mask if not isinstance(mask, slice) else None)
        if op == "classlevel_sum":
            with gbops.Shims(threshold=cfg.get("threshold"), key_chunks=cfg.get("key_chunks")):
                return GroupBy.sum(raw_keys, values, mask=mask)
        if op == "sum_default_config":
            # the class-level form cannot pass sort=...: it is equivalent to a default GroupBy on the raw keys
            with gbops.Shims(threshold=cfg.get("threshold"), key_chunks=cfg.get("key_chunks")):
                return GroupBy(raw_keys).sum(values, mask=mask)
        if op == "sum_margins":
            return gb.sum(values, mask=mask, margins=True)
        if op == "quantile_scalar_frame":
            # frame-shaped result of the apply route with a scalar q (the library names the last index level "q" in place)
            return gb.quantile({"a": values, "b": values}, q=0.5)
        if op == "count_nullable_int":
            # an integer column that holds nulls (pandas nullable): counted entries differ from rows
            iv = [None if (i % 3 == 1) else int(i) for i in range(n)]
            return gb.count(pd.Series(iv, dtype="Int64"))
        if op == "same_buffer_mask":
            # one boolean buffer, refilled in place between two masked reductions
            buf = buffers.setdefault("mask", np.zeros(n, dtype=bool))
            buf[:] = np.array(step["mask_a"], dtype=bool)
            gb.sum(values, mask=buf)
            buf[:] = np.array(step["mask_b"], dtype=bool)
            return gb.count(values, mask=buf)
    raise ValueError(op)


def reference_step(step):
    """What a fresh object is asked: copies and class-level calls must equal the plain call on the original keys."""
    if step["op"] in ("copy_then_sum", "twin_sum"):
        return dict(step, op="sum", kw={})
    if step["op"] == "twin_cumsum":
        m = step.get("mask")
        return dict(step, op="cumsum", kw={"skip_na": True}, mask=None if (m and m["kind"] != "bool") else m)
    if step["op"] == "make_twin":
        return dict(step, op="size", kw={}, mask=None)
    if step["op"] == "classlevel_sum":
        return dict(step, op="sum_default_config", kw={})
    return step


def normalise(res):
    if isinstance(res, dict):
        return {"type": "dict", "value": {repr(k): v for k, v in res.items()}}
    return ops.normalise(res)


def execute_history(case, ctx=None, on_step=None):
    """Replay a history; raises Violation on the first divergence from a fresh object."""
    cfg, keys_spec = case["cfg"], case["keys"]
    gb, raw = build_gb(cfg, keys_spec)
    codes0 = logical_codes(gb).tolist()
    labels0 = labels_from_index(gb.result_index)
    buffers = {}
    for i, step in enumerate(case["steps"]):
        fresh, raw2 = build_gb(cfg, keys_spec)
        errA = errB = None
        try:
            got = run_step(gb, raw, step, cfg, buffers)
        except Exception as e:  # noqa
            errA = e
        try:
            want = run_step(fresh, raw2, reference_step(step), cfg, {})
        except Exception as e:  # noqa
            errB = e
        if errA is not None or errB is not None:
            if errA is not None and errB is not None and type(errA) is type(errB):
                pass  # refused by a fresh object too: not a history effect
            else:
                e = errA or errB
                if errA is not None:
                    classify_exception(errA)
                raise Violation(f"history-changes-outcome:{step['op']}",
                                f"step {i} ({step['op']}): reused object {'raises ' + type(errA).__name__ + ': ' + str(errA)[:200] if errA else 'returns'}, "
                                f"fresh object {'raises ' + type(errB).__name__ if errB else 'returns'}; history {[s['op'] for s in case['steps'][:i + 1]]}")
        else:
            tol = 1e-9
            try:
                a, b = normalise(got), normalise(want)
                if a.get("type") == "dict":
                    if a != b:
                        raise Violation("x", f"{a} vs {b}")
                else:
                    ops.compare_norm(a, b, tol=tol, what=f"step{i}:{step['op']}")
            except Violation as v:
                raise Violation(f"differs-from-fresh:{step['op']}", f"step {i} of history {[s['op'] for s in case['steps'][:i + 1]]}: {v.msg[:400]}")
        # invariants
        if labels_from_index(gb.result_index) != labels0 or gb.ngroups != len(labels0):
            raise Violation(f"labels-changed-after:{step['op']}", f"{labels_from_index(gb.result_index)} vs {labels0}")
        if logical_codes(gb).tolist() != codes0:
            raise Violation(f"codes-changed-after:{step['op']}", f"logical codes changed after step {i} ({step['op']})")
        if on_step:
            on_step(i, step)


def nontrivial(case):
    if case["cfg"]["layout"] not in ("chunkwise", "partial", "prechunked"):
        return False
    seen_relayout = False
    for s in case["steps"]:
        if seen_relayout and s["op"] in ops.OPS and ops.OPS[s["op"]].kind == "red" and s.get("mask") and s["mask"]["kind"] in ("slice", "pos"):
            return True
        if s["op"] in RELAYOUT or s["op"].endswith("_transform"):
            seen_relayout = True
    return False


def check(case, ctx):
    """Replay entry (regressions / --replay): run the stored history."""
    ctx.seen("history", case, nontrivial(case), [f"layout:{case['cfg']['layout']}", f"steps:{len(case['steps'])}"])
    execute_history(case, ctx)


# ---------------------------------------------------------------------------
@st.composite
def config_strategy(draw):
    layout = draw(st.sampled_from(["contiguous", "chunkwise", "chunkwise", "partial", "prechunked"]))
    n = draw(st.sampled_from([4, 5, 6, 8, 10, 12, 16, 24]))
    cfg = {"layout": layout, "n": n, "sort": draw(st.sampled_from([True, True, False])), "threads": draw(st.sampled_from([None, 1, 2, 3]))}
    if layout == "contiguous":
        keys = draw(S.keys(n, nkeys=(1, 2), max_labels=4))
        cfg["kc"] = draw(st.sampled_from(["np", "series"]))
    elif layout == "prechunked":
        keys = [draw(S.key_column(n, types=("int", "float"), allow_null=False, max_labels=4))]
        k = draw(st.integers(1, 4))
        cuts = sorted(draw(st.lists(st.integers(0, n), min_size=k - 1, max_size=k - 1)))
        b = [0] + cuts + [n]
        cfg["chunks"] = [y - x for x, y in zip(b[:-1], b[1:])]
    else:
        shape = "sorted_prefix" if layout == "partial" else draw(st.sampled_from(["random", "blocks"]))
        keys = [draw(S.key_column(n, types=("int", "float", "dt"), max_labels=4, shape=shape))]
        cfg["threshold"] = draw(st.integers(1, n))
        cfg["key_chunks"] = draw(st.integers(1, 5))
        cfg["kc"] = "np"
    return cfg, keys


SOFT = ("groups", "median", "quantile", "apply_max")  # unify the codes but keep the key chunked
MASKED_RED = ("sum", "min", "first", "last", "count", "size", "mean", "max")


@st.composite
def step_strategy(draw, n, after_relayout=False, chunked=False, has_twin=False, allow_steps=False):
    """The next operation.  `chunked` / `has_twin` describe the live object (read from it, used only to steer the draw
    towards histories that matter: operations while the key is still chunk-wise, copies taken before a re-layout)."""
    names = sorted(ops.OPS) + list(EXTRA)
    forced_mask = None
    if chunked:
        modes = ["any", "any", "soft", "masked_red", "masked_red", "twin" if has_twin else "make_twin"]
    elif has_twin:
        modes = ["any", "any", "masked_red", "twin", "twin", "relayout"]
    elif after_relayout:
        modes = ["any", "masked_red"]
    else:
        modes = ["any", "any", "relayout"]
    mode = draw(st.sampled_from(modes))
    if mode == "masked_red":
        # the shape that matters: a reduction with a slice / positional mask after a re-layout
        op = draw(st.sampled_from(MASKED_RED))
        forced_mask = draw(st.sampled_from(["slice", "slice", "pos", "bool"] if chunked else ["slice", "pos"]))
    elif mode == "soft":
        op = draw(st.sampled_from(SOFT))
    elif mode == "make_twin":
        op = "make_twin"
    elif mode == "twin":
        op = draw(st.sampled_from(["twin_sum", "twin_sum", "twin_cumsum"]))
    elif mode == "relayout":
        op = draw(st.sampled_from(sorted(RELAYOUT & set(names)) + ["sum_transform", "groups"]))
    else:
        op = draw(st.sampled_from(names))
    step = {"op": op}
    if op in ops.OPS:
        o = ops.OPS[op]
        mk = forced_mask or draw(st.sampled_from(o.masks))
        kinds = [k for k in "fi" if k in o.value_kinds] or ["f"]
        dt = {"f": ("float64",), "i": ("int64", "int32")}[draw(st.sampled_from(kinds))]
        step["vals"] = draw(S.value_column(n, dtypes=dt, regime="exact"))
        step["mask"] = None if mk == "none" else draw(S.mask_spec(n, kinds=(mk,), negative_pos=False, steps=allow_steps))
        if forced_mask == "slice" and draw(st.booleans()):
            # a slice that starts inside the data and cuts some groups off
            a = draw(st.integers(1, max(1, n // 2)))
            step["mask"] = {"kind": "slice", "start": a, "stop": draw(st.sampled_from([None, n - 1, a + max(2, n // 2)]))}
        step["kw"] = o.kw(draw, n) if o.kw else {}
    elif op in ("quantile_scalar_frame",):
        step["vals"] = draw(S.value_column(n, dtypes=("float64",), regime="exact", null_modes=["none"]))
    elif op in ("copy_then_sum", "classlevel_sum", "sum_margins", "twin_sum"):
        step["vals"] = draw(S.value_column(n, dtypes=("float64",), regime="exact"))
        step["mask"] = draw(S.mask_spec(n, kinds=("none", "bool", "slice"), steps=False))
    elif op == "twin_cumsum":
        step["vals"] = draw(S.value_column(n, dtypes=("float64",), regime="exact"))
        step["mask"] = draw(S.mask_spec(n, kinds=("none", "bool")))
    elif op == "same_buffer_mask":
        step["vals"] = draw(S.value_column(n, dtypes=("float64",), regime="exact"))
        step["mask_a"] = draw(st.lists(st.booleans(), min_size=n, max_size=n))
        step["mask_b"] = draw(st.lists(st.booleans(), min_size=n, max_size=n))
    return step


def drive(sub, variant, ctx, n_examples, seed_int, shrink_budget_s):
    excluded = set()
    for round_ in range(3):
        failure = {}

        class Machine(RuleBasedStateMachine):
            def __init__(self):
                super().__init__()
                self.case = None
                self.gb = None

            @initialize(cfgkeys=config_strategy())
            def setup(self, cfgkeys):
                cfg, keys = cfgkeys
                self.case = {"cfg": cfg, "keys": keys, "steps": []}
                self.gb, self.raw = build_gb(cfg, keys)
                self.codes0 = logical_codes(self.gb).tolist()
                self.labels0 = labels_from_index(self.gb.result_index)
                self.buffers = {}
                self.flags = []

            @rule(data_=st.data())
            def step(self, data_):
                if "case" not in failure and ctx.out_of_time():
                    return
                relaid = any(s_["op"] in RELAYOUT or s_["op"].endswith("_transform") for s_ in self.case["steps"])
                step = data_.draw(step_strategy(self.case["cfg"]["n"], after_relayout=relaid, chunked=bool(self.gb.key_is_chunked),
                                                has_twin="twin" in self.buffers,
                                                # stepped slices only where a fresh object is never chunk-wise (the library rejects them there)
                                                allow_steps=self.case["cfg"]["layout"] == "contiguous"))
                self.case["steps"].append(step)
                self.flags.append((bool(self.gb.key_is_chunked), "twin" in self.buffers))
                import time as _t

                ctx.t_case = _t.time()
                ctx.current = (sub.name, {"cfg": self.case["cfg"], "keys": self.case["keys"], "steps": list(self.case["steps"])})
                one = {"cfg": self.case["cfg"], "keys": self.case["keys"], "steps": list(self.case["steps"])}
                try:
                    # re-execute only the last step on the live object, against a fresh one
                    self._run_last(step)
                except Exception as e:  # noqa
                    v = classify_exception(e)
                    b = bucket_of(sub.name, v)
                    if b in excluded:
                        ctx.classes[f"excluded:{b}"] += 1
                        return
                    k = match_known(ctx.prop, sub.name, one, v)
                    if k:
                        ctx.known_hits[k] += 1
                        return
                    failure["case"], failure["v"] = json.loads(canon(one)), v
                    raise v

            def _run_last(self, step):
                case = self.case
                i = len(case["steps"]) - 1
                single = {"cfg": case["cfg"], "keys": case["keys"], "steps": [step]}
                # run on the live object
                cfg = case["cfg"]
                fresh, raw2 = build_gb(cfg, case["keys"])
                errA = errB = None
                try:
                    got = run_step(self.gb, self.raw, step, cfg, self.buffers)
                except Exception as e:  # noqa
                    errA = e
                try:
                    want = run_step(fresh, raw2, reference_step(step), cfg, {})
                except Exception as e:  # noqa
                    errB = e
                hist = [s["op"] for s in case["steps"]]
                if errA is not None or errB is not None:
                    if not (errA is not None and errB is not None and type(errA) is type(errB)):
                        if errA is not None:
                            classify_exception(errA)
                        raise Violation(f"history-changes-outcome:{step['op']}",
                                        f"step {i}: reused object {'raises ' + type(errA).__name__ + ': ' + str(errA)[:200] if errA else 'returns'}, "
                                        f"fresh object {'raises ' + type(errB).__name__ if errB else 'returns'}; history {hist}")
                else:
                    try:
                        a, b = normalise(got), normalise(want)
                        if a.get("type") == "dict":
                            if a != b:
                                raise Violation("x", f"{a} vs {b}")
                        else:
                            ops.compare_norm(a, b, tol=1e-9, what=f"step{i}:{step['op']}")
                    except Violation as v:
                        raise Violation(f"differs-from-fresh:{step['op']}", f"step {i} of history {hist}: {v.msg[:400]}")
                if labels_from_index(self.gb.result_index) != self.labels0 or self.gb.ngroups != len(self.labels0):
                    raise Violation(f"labels-changed-after:{step['op']}", f"history {hist}")
                if logical_codes(self.gb).tolist() != self.codes0:
                    raise Violation(f"codes-changed-after:{step['op']}", f"logical codes changed; history {hist}")

            def _shape_labels(self):
                steps, flags, out = self.case["steps"], self.flags, []
                soft = [i for i, s in enumerate(steps) if s["op"] in SOFT and flags[i][0]]
                if soft and any(i > soft[0] and flags[i][0] and s["op"] in MASKED_RED and (s.get("mask") or {}).get("kind") == "slice"
                                and (s["mask"].get("start") or 0) > 0 for i, s in enumerate(steps)):
                    out.append("shape:codes-unified-in-place-then-interior-slice-while-chunk-wise")
                tw = [i for i, s in enumerate(steps) if s["op"] == "make_twin" and flags[i][0]]
                if tw:
                    out.append("shape:copy-taken-while-chunk-wise")
                    re = [i for i, s in enumerate(steps) if i > tw[0] and (s["op"] in RELAYOUT or s["op"].endswith("_transform") or s["op"] == "twin_cumsum")]
                    if re and any(i > re[0] for i, s in enumerate(steps)):
                        out.append("shape:copy-while-chunk-wise-then-relayout-of-one-then-call")
                return out

            def teardown(self):
                if self.case is not None and self.case["steps"]:
                    ctx.seen("history", {"cfg": self.case["cfg"], "keys": self.case["keys"], "steps": [
                        {"op": s["op"], "mask": (s.get("mask") or {}).get("kind") if isinstance(s.get("mask"), dict) else None} for s in self.case["steps"]]},
                        nontrivial(self.case), [f"layout:{self.case['cfg']['layout']}", f"steps:{len(self.case['steps'])}"] +
                        [f"step:{s['op']}" for s in self.case["steps"]] + self._shape_labels())
                    ctx.evaluations += len(self.case["steps"]) - 1

        sett = settings(max_examples=max(1, n_examples), stateful_step_count=12, database=None, deadline=None, derandomize=False,
                        report_multiple_bugs=False, suppress_health_check=list(HealthCheck), phases=[Phase.generate, Phase.shrink], print_blob=False)
        try:
            run_state_machine_as_test(hypothesis.seed(seed_int + 7919 * round_)(Machine), settings=sett)
            return
        except Violation as v:
            case = failure.get("case")
            v = failure.get("v", v)
            path = save_replay(ctx.prop, sub.name, case, v, variant)
            ctx.failures.append(dict(sub=sub.name, variant=variant, bucket=bucket_of(sub.name, v), kind=v.kind, message=v.msg[:600], replay=path, case=case))
            excluded.add(bucket_of(sub.name, v))
            ctx.found_one()
        except HarnessError:
            raise
        except BaseException as e:  # Flaky etc.
            if isinstance(e, (KeyboardInterrupt, SystemExit)):
                raise
            if "case" not in failure:
                import time as _time
                import traceback

                if _time.time() > ctx.deadline and "Flaky" in type(e).__name__:
                    # past the wall-clock budget the machine stops drawing steps, which Hypothesis reports as inconsistent data
                    # generation: the run is over and inconclusive for what was not executed, nothing more
                    ctx.notes.append("wall-clock budget reached inside the state machine: remaining histories skipped (inconclusive)")
                    return
                raise HarnessError("".join(traceback.format_exception(type(e), e, e.__traceback__)))
            v = Violation(failure["v"].kind + "|nondeterministic", failure["v"].msg)
            path = save_replay(ctx.prop, sub.name, failure["case"], v, variant)
            ctx.failures.append(dict(sub=sub.name, variant=variant, bucket=bucket_of(sub.name, v), kind=v.kind, message=v.msg[:600], replay=path, case=failure["case"]))
            excluded.add(bucket_of(sub.name, failure["v"]))


SUBS = [
    Sub("history", check, stateful=drive, variants=("-",), examples=(1600, 32000), replicas=(16, 16), cost={"-": 1600}),
]
