"""C15 head/tail/nth select exactly the requested rows of each group (model + large-group size tier)."""
import numpy as np
import pandas as pd
from hypothesis import strategies as st

from groupby_lib import GroupBy

from .. import data, gbops, model
from .. import strategies as S
from ..core import Sub, Violation

RULE = (
    "Sampled: n <= 40 rows, 1-2 keys with nulls and any interleaving, n_arg from 0 to beyond the largest group "
    "(negative for nth), values as a 1-D array/Series of unique row ids or a 2-3 column collection whose first column "
    "is the row id (so every returned row is identified exactly), input index default / shuffled / duplicated / "
    "string, sort on/off, keep_input_index=True, optionally after an earlier groups / apply / size call on the same object.  Size tier: one group of 32_767, 32_768, 65_535, 65_536, 70_000 or "
    "200_000 rows interleaved with small groups, n_arg around those sizes.  Non-trivial = a group longer than n_arg "
    "and another shorter, interleaved.  Distinct = case hash."
)
ORACLE = ("model positions per group; result rows == exactly those rows (identified by the unique id column), each once, "
          "values unmodified, index label == the row's original label, rows of one group in original relative order, "
          "no null-key row")
ASSUMPTIONS = ["the order of rows BETWEEN groups is not constrained by the property"]


@st.composite
def case_strategy(draw, variant):
    n = draw(st.sampled_from([0, 1, 2, 3, 4, 5, 6, 8, 10, 12, 16, 20, 30, 40]))
    layout = draw(st.sampled_from(["contiguous", "contiguous", "contiguous", "chunkwise"]))
    if layout == "chunkwise":
        # chunk-wise factorized keys (threshold scaled down): a group may be absent from the first / last chunk
        n = max(n, 4)
        keys = [draw(S.key_column(n, types=("int", "float", "dt"), max_labels=4, shape=draw(st.sampled_from(["random", "blocks", "sorted_prefix"]))))]
    else:
        keys = draw(S.keys(n, nkeys=(1, 2), max_labels=4))
    how = draw(st.sampled_from(["head", "tail", "nth", "nth"]))
    narg = draw(st.integers(0, 8)) if how != "nth" else draw(st.integers(-8, 8))
    ncols = draw(st.sampled_from([1, 1, 2, 3]))
    extra = [draw(S.value_column(n, dtypes=("float64", "int64", "M8[ns]", "bool"), regime="exact", name=f"x{i}")) for i in range(ncols - 1)]
    return {"n": n, "keys": keys, "how": how, "narg": narg, "extra": extra, "sort": draw(st.sampled_from([True, True, False])),
            "vals_as": draw(st.sampled_from(["np", "series"])) if ncols == 1 else draw(st.sampled_from(["dict", "df", "list"])),
            "index": draw(st.sampled_from(["default", "shuffled", "dup", "str", "range5"])),
            "prior": draw(st.sampled_from(["none", "none", "groups", "apply", "size"])), "layout": layout,
            "threshold": draw(st.integers(1, max(n, 1))), "key_chunks": draw(st.integers(1, 5))}


def expected_positions(how, narg, groups):
    out = {}
    for lab, ps in groups.items():
        if how == "head":
            out[lab] = ps[:narg]
        elif how == "tail":
            out[lab] = ps[-narg:] if narg > 0 else []
        else:
            out[lab] = [ps[narg]] if -len(ps) <= narg < len(ps) else []
    return out


def run(case, keys_obj, n, labels, ctx_classes=None):
    how, narg = case["how"], case["narg"]
    index = data.make_index(case["index"], n)
    ids = np.arange(n, dtype=np.int64) * 3 + 1  # unique, != position
    extra = [data.render_val(v, "np") for v in case.get("extra", [])]
    va = case["vals_as"]
    if va == "np":
        values = ids
        index = None
    elif va == "series":
        values = pd.Series(ids, index=index, name="id")
    elif va == "dict":
        values = {"id": pd.Series(ids, index=index), **{f"x{i}": pd.Series(e, index=index) for i, e in enumerate(extra)}}
    elif va == "df":
        values = pd.DataFrame({"id": ids, **{f"x{i}": e for i, e in enumerate(extra)}}, index=index)
    else:
        values = [pd.Series(ids, index=index, name="id")] + [pd.Series(e, index=index, name=f"x{i}") for i, e in enumerate(extra)]
    with (gbops.Shims(threshold=case["threshold"], key_chunks=case["key_chunks"]) if case.get("layout") == "chunkwise" else gbops.Shims()):
        gb = GroupBy(keys_obj, sort=case["sort"])
        prior = case.get("prior", "none")
        if prior == "groups":
            gb.groups  # fills the cached group-sorted indexer: the selection must not depend on it
        elif prior == "apply":
            gb.apply(np.arange(n, dtype=float), np.max)
        elif prior == "size":
            gb.size()
        res = getattr(gb, how)(values, n=narg, keep_input_index=True)
    return res, index, ids, extra


def verify(case, res, index, ids, extra, labels, groups, n):
    how, narg = case["how"], case["narg"]
    exp = expected_positions(how, narg, groups)
    want_rows = sorted(p for ps in exp.values() for p in ps)
    if isinstance(res, pd.Series):
        got_ids = [int(x) for x in res.to_numpy()]
        frame = None
    elif isinstance(res, pd.DataFrame):
        got_ids = [int(x) for x in res.iloc[:, 0].to_numpy()]
        frame = res
    else:
        raise Violation("shape", f"unexpected result type {type(res).__name__}")
    pos_of_id = {int(v): i for i, v in enumerate(ids)}
    bad = [g for g in got_ids if g not in pos_of_id]
    if bad:
        raise Violation(f"{how}:values-modified", f"returned ids {bad[:5]} do not exist in the input")
    got_pos = [pos_of_id[g] for g in got_ids]
    if sorted(got_pos) != want_rows:
        missing = sorted(set(want_rows) - set(got_pos))[:6]
        extra_rows = sorted(set(got_pos) - set(want_rows))[:6]
        dup = len(got_pos) != len(set(got_pos))
        raise Violation(f"{how}:rows", f"n={narg}: missing rows {missing} unexpected rows {extra_rows} duplicates {dup}; "
                                       f"returned {len(got_pos)} rows, expected {len(want_rows)}")
    for p in got_pos:
        if labels[p] is None:
            raise Violation(f"{how}:null-key-row", f"row {p} has a null key")
    # index labels
    idx_labels = data.index_labels(res.index)
    src_labels = data.index_labels(index) if index is not None else [(i,) for i in range(n)]
    for lab, p in zip(idx_labels, got_pos):
        if lab != src_labels[p]:
            raise Violation(f"{how}:index-label", f"row {p} carries index label {lab}, original label {src_labels[p]}")
    # relative order within each group
    seen = {}
    for p in got_pos:
        l = labels[p]
        if l in seen and seen[l] > p:
            raise Violation(f"{how}:order-within-group", f"group {l}: row {p} returned after row {seen[l]}")
        seen[l] = p
    # other columns unmodified
    if frame is not None:
        for j, e in enumerate(extra):
            col = data.series_values(frame.iloc[:, j + 1])
            src = data.series_values(pd.Series(e))
            for c, p in zip(col, got_pos):
                if c != src[p] and not (c is None and src[p] is None):
                    raise Violation(f"{how}:values-modified", f"column x{j} row {p}: {c!r} != {src[p]!r}")


def check(case, ctx):
    n = case["n"]
    keys = [data.render_key(k, "np") for k in case["keys"]]
    karg = keys[0] if len(keys) == 1 else keys
    labels = gbops.labels_of(case)
    groups = model.group_positions(labels, range(n))
    sizes = [len(v) for v in groups.values()]
    a = abs(case["narg"]) if case["how"] == "nth" else case["narg"]
    interleaved = len(groups) >= 2 and any(labels[i] is not None and labels[i + 1] is not None and labels[i] != labels[i + 1] for i in range(n - 1))
    nt = interleaved and any(s > a for s in sizes) and any(s <= a for s in sizes)
    ctx.seen("select", case, nt, [f"how:{case['how']}", f"index:{case['index']}", f"vals_as:{case['vals_as']}", f"sort:{case['sort']}",
                                  f"nullkeys:{any(l is None for l in labels)}", f"neg:{case['narg'] < 0}", f"prior:{case.get('prior')}", f"layout:{case.get('layout', 'contiguous')}"])
    if n == 0:
        return  # values of length 0 carry no rows to select; construction on empty input is not this property
    res, index, ids, extra = run(case, karg, n, labels)
    verify(case, res, index, ids, extra, labels, groups, n)


# ---- size tier ---------------------------------------------------------------
BIG_SIZES = [32_767, 32_768, 65_535, 65_536, 70_000, 200_000]
# group sizes / n around the limits of narrow counters (int8, uint8); keys whose codes are stored in int8 / int16
SMALL_LIMIT_SIZES = [127, 128, 129, 255, 256, 257, 300, 1000]
KEYDTYPES = ["float", "float", "cat8", "bool", "cat16"]


@st.composite
def big_case(draw, variant):
    g = draw(st.sampled_from(BIG_SIZES + SMALL_LIMIT_SIZES))
    how = draw(st.sampled_from(["head", "tail", "nth", "nth", "nth"] if g in BIG_SIZES else ["head", "tail", "nth"]))
    near = draw(st.sampled_from([g - 1, g, g - 2, 32_767, 32_768, 40_000, 65_535, 65_536, 3, 0, 127, 128, 129, 255, 256]))
    if how == "nth":
        narg = draw(st.sampled_from([near, -1, -near - 1, -2, g // 2, -(g // 2)]))
    else:
        narg = draw(st.sampled_from([near, 2, g + 5]))
    narg = int(max(min(narg, g + 10), -g - 10))
    return {"big": g, "how": how, "narg": narg, "stride": draw(st.sampled_from([0, 7, 1000])), "small": draw(st.integers(1, 3)),
            "sort": True, "vals_as": "np", "index": "default", "extra": [], "keydtype": draw(st.sampled_from(KEYDTYPES))}


def big_check(case, ctx):
    g, stride = case["big"], case["stride"]
    # one big group (label 5) with small groups (labels 1..small) sprinkled every `stride` rows, plus a null key
    if stride:
        n = g + g // stride + 1
        keys = np.full(n, 5.0)
        small_rows = np.arange(0, n, stride + 1)[: g // stride + 1]
        keys[small_rows] = 1.0 + (np.arange(len(small_rows)) % case["small"])
        keys[-1] = np.nan if n - 1 not in small_rows else keys[-1]
        n_big = int((keys == 5.0).sum())
    else:
        n = g
        keys = np.full(n, 5.0)
    labels = [None if np.isnan(k) else (float(k),) for k in keys]
    kd = case.get("keydtype", "float")
    keys_obj = keys
    if kd in ("cat8", "cat16"):
        # categorical keys: the group codes are int8 (few categories) or int16 (200 categories, most of them unused)
        cats = [1.0, 2.0, 3.0, 5.0] + ([100.0 + i for i in range(200)] if kd == "cat16" else [])
        keys_obj = pd.Categorical(keys, categories=cats)
    elif kd == "bool":
        nullrow = np.isnan(keys)
        keys_obj = keys == 5.0
        labels = [(bool(k),) for k in keys_obj]
        if nullrow.any():
            labels = [(bool(k),) for k in keys_obj]  # a boolean key has no null: the NaN row joins the small group
    groups = model.group_positions(labels, range(n))
    ctx.seen("big", case, True, [f"big:{g}", f"big:how:{case['how']}", f"big:stride:{stride}", f"big:keydtype:{kd}"])
    res, index, ids, extra = run(case, keys_obj, n, labels)
    verify(case, res, index, ids, extra, labels, groups, n)


SUBS = [
    Sub("select", check, strategy=lambda tier, v: case_strategy(v), variants=("-",), examples=(12000, 200000),
        replicas=(8, 16), cost={"-": 300}),
    Sub("big", big_check, strategy=lambda tier, v: big_case(v), variants=("-",), examples=(240, 4000),
        replicas=(8, 16), cost={"-": 300}),
]
