"""C08 Cumulative operations are per-group prefix reductions (model + exhaustive small interleavings)."""
import itertools

import numpy as np
import pandas as pd
from hypothesis import strategies as st

from groupby_lib.groupby import numba as nbf

from .. import data, gbops, model, ops
from .. import strategies as S
from ..core import Sub, Violation, classify_exception

RULE = (
    "Enumerated: all code sequences over {null,0,1} x all value sequences over {null,-2.0,1.5} of length <= 5 (quick) "
    "/ <= 6 (thorough) x {cumsum,cummin,cummax,cumcount} x skip_na on/off through numba.cum*; integer and "
    "datetime alphabets for length <= 4/5.  Sampled with Hypothesis through GroupBy.cum*: n <= 30, 1-2 keys with nulls, "
    "any interleaving, boolean masks, dtypes float32/64, ints up to 2^62, uint, bool, datetime/timedelta, both "
    "skip_na settings, NumPy/pandas values.  Non-trivial = some group has >= 3 rows, is interleaved with another "
    "group, and a null value, masked row or null-key row falls between its rows.  Distinct by construction "
    "(enumeration) or case hash (sampled)."
)
ORACLE = ("prefix model: at every selected row with a non-null key the running sum/min/max of the group's earlier selected "
          "non-null values (skip_na=False: running sum null from the first null on; cummin/cummax then only on null-free "
          "data), cumcount = number of earlier selected rows; last value per group == GroupBy.sum/min/max; integer/"
          "temporal outputs keep an integer/temporal dtype and are exact above 2^53")
ASSUMPTIONS = [
    "outputs at unselected (masked) rows are not constrained here (C05 relates them to filtering)",
    "cumsum of datetime64 is not checked (not meaningful); timedelta cumsum is",
    "a prefix without any non-null value has running sum 0 (empty sum) and running min/max null",
]
MIN_INT = np.iinfo(np.int64).min


def prefix_model(op, labels, values, selected, n, skip_na=True):
    """-> list of expected python values; entries are ('skip',) where the property is silent."""
    sel = set(selected)
    state = {}
    out = [("skip",)] * n
    for i in range(n):
        lab = labels[i]
        if lab is None or i not in sel:
            continue
        st_ = state.setdefault(lab, {"vals": [], "rows": 0, "poisoned": False})
        v = values[i]
        st_["rows"] += 1
        if v is None and not skip_na:
            st_["poisoned"] = True
        st_["vals"].append(v)
        nn = model.nonnull(st_["vals"])
        if op == "count":
            out[i] = st_["rows"] - 1
        elif op == "sum":
            out[i] = None if st_["poisoned"] else (model.fsum(nn) if nn else 0)
        else:
            if not skip_na and any(x is None for x in st_["vals"]):
                out[i] = ("skip",)
            else:
                out[i] = (min(nn) if op == "min" else max(nn)) if nn else None
    return out


def to_py(arr):
    arr = np.asarray(arr)
    if arr.dtype.kind in "mM":
        unit = np.datetime_data(arr.dtype)[0]
        m = data.UNIT_NS[unit]
        return [None if x == MIN_INT else int(x) * m for x in arr.view("i8")]
    if arr.dtype.kind == "f":
        return [None if np.isnan(x) else float(x) for x in arr]
    if arr.dtype.kind == "b":
        return [bool(x) for x in arr]
    return [int(x) for x in arr]


def compare(op, exp, got, tol, what, vkind="f"):
    for i, (e, g) in enumerate(zip(exp, got)):
        if e == ("skip",):
            continue
        if vkind in "iu" and op in ("min", "max") and e is None:
            continue  # ints cannot be null
        if not ops.same_values([e], [g], tol):
            raise Violation(f"{what}:{op}", f"row {i}: expected {e!r} got {g!r}", extra={"row": i})


# ---------------------------------------------------------------------------
ALPHA = {"float": [None, -2.0, 1.5], "int": [-2, 3, 2**53 + 1], "datetime": [None, 10**17 + 5, 10**17 + 1]}


def kernel_arrays(dtype, vals):
    if dtype == "float":
        return np.array([np.nan if v is None else v for v in vals], dtype=float)
    if dtype == "int":
        return np.array(vals, dtype=np.int64)
    return np.array([MIN_INT if v is None else v for v in vals], dtype=np.int64).view("M8[ns]")


def enum_cases(tier, variant, replica, nreplicas):
    dtype = variant
    lmax = (5 if dtype == "float" else 4) + (0 if tier == "quick" else 1)
    i = 0
    for L in range(1, lmax + 1):
        for codes in itertools.product([-1, 0, 1], repeat=L):
            for vals in itertools.product(ALPHA[dtype], repeat=L):
                i += 1
                if i % nreplicas != replica:
                    continue
                yield {"dtype": dtype, "codes": list(codes), "vals": list(vals)}


def enum_check(case, ctx):
    dtype, codes, vals = case["dtype"], case["codes"], case["vals"]
    micro = "op" in case
    n = len(codes)
    labels = [None if c < 0 else (c,) for c in codes]
    arr = kernel_arrays(dtype, vals)
    carr = np.array(codes, dtype=np.int64)
    combos = [(case["op"], case["skip_na"])] if micro else [(o, s) for o in ("sum", "min", "max", "count") for s in (True, False)]
    interesting = n >= 4 and any(codes.count(g) >= 3 for g in (0, 1)) and len({c for c in codes if c >= 0}) == 2
    for op, skip_na in combos:
        if dtype == "datetime" and op == "sum":
            continue
        if op == "count" and not skip_na:
            continue
        if not micro:
            ctx.evaluations += 1
            ctx.per_sub["enum"] += 1
            if interesting:
                ctx.nontrivial_constructed += 1
        try:
            if op == "count":
                res = nbf.cumcount(carr, None, 2)
            else:
                res = getattr(nbf, "cum" + op)(carr, arr, 2, skip_na=skip_na)
            exp = prefix_model(op, labels, [None if v is None else (v if dtype != "datetime" else v) for v in vals], range(n), n, skip_na)
            got = to_py(res)
            compare(op, exp, got, 0.0, "kernel", vkind={"float": "f", "int": "i", "datetime": "M"}[dtype])
            res = np.asarray(res)
            if op != "count":
                if dtype == "int" and res.dtype.kind != "i":
                    raise Violation(f"kernel-dtype:{op}", f"int64 input gave {res.dtype}")
                if dtype == "datetime" and res.dtype.kind != "M":
                    raise Violation(f"kernel-dtype:{op}", f"datetime64 input gave {res.dtype}")
            elif res.dtype.kind not in "iu":
                raise Violation("kernel-dtype:count", f"cumcount gave {res.dtype}")
        except Exception as e:  # noqa
            v = classify_exception(e)
            if micro:
                raise v
            ctx.report("enum", dict(case, op=op, skip_na=skip_na), v)
    if not micro:
        if len(ctx.samples) < ctx.sample_cap and interesting and ctx.evaluations % 11 == 0:
            ctx.samples.append({"sub": "enum", "case": case})
        lmax = (5 if dtype == "float" else 4) + (0 if ctx.tier == "quick" else 1)
        txt = f"numba.cum*: all codes over {{null,0,1}} x values over {ALPHA[dtype]} of length <= {lmax} x ops x skip_na ({dtype})"
        if txt not in ctx.exhaustive:
            ctx.exhaustive.append(txt)


# ---------------------------------------------------------------------------
VARIANTS = {"f": ("float64", "float32"), "i": ("int64", "int32", "uint8", "uint64", "bool"), "t": ("M8[ns]", "m8[ns]", "M8[s]", "tz:US/Eastern:ns")}


@st.composite
def case_strategy(draw, variant):
    n = draw(st.sampled_from([1, 2, 3, 4, 5, 6, 8, 10, 12, 16, 20, 30]))
    keys = draw(S.keys(n, nkeys=(1, 2), max_labels=3))
    vspec = draw(S.value_column(n, dtypes=VARIANTS[variant], regime=draw(st.sampled_from(["exact", "exact", "wild"])), null_modes=["none", "some", "some", "heavy"]))
    if vspec["dtype"].startswith("m8"):
        pass
    vkind = data.val_kind(vspec)
    opsl = ["sum", "min", "max", "count"]
    if vkind == "M":
        opsl.remove("sum")
    op = draw(st.sampled_from(opsl))
    if vspec["dtype"] == "uint64" and op in ("min", "max") and draw(st.booleans()):
        # unsigned values in the upper half of the range (they are not negative numbers)
        vspec["vals"] = [v + 2**63 + 1 if i % 2 else v for i, v in enumerate(vspec["vals"])]
    mask = draw(S.mask_spec(n, kinds=("none", "none", "bool")))
    vc = draw(st.sampled_from(["np", "series", "np", "chunked"]))
    if vc == "chunked":
        if vspec["dtype"] in ("float64", "float32", "int64", "int32", "uint8") and n >= 2 and not any(v is None for v in vspec["vals"]):
            # values in an Arrow chunked array: chunk boundaries independent of groups and mask
            vc = draw(st.sampled_from(["pa_chunked", "pd_arrow_chunked"]))
            k = draw(st.integers(2, 4))
            cuts = sorted(draw(st.lists(st.integers(0, n), min_size=k - 1, max_size=k - 1)))
            b = [0] + cuts + [n]
            vspec["chunks"] = [y - x for x, y in zip(b[:-1], b[1:])]
        else:
            vc = "np"
    return {"n": n, "warm": draw(S.warm()), "keys": keys, "vals": [vspec], "mask": mask, "op": op,
            "skip_na": draw(st.sampled_from([True, True, False])), "sort": True,
            "render": {"vc": vc, "kc": "np", "index": draw(st.sampled_from(["default", "shuffled"])) if vc in ("np", "series") else "default",
                       "mc": draw(st.sampled_from(["np", "series"]))}}


def check(case, ctx):
    n, op = case["n"], case["op"]
    vspec = case["vals"][0]
    vkind = data.val_kind(vspec)
    keys, vals, mask, index = gbops.render(case)
    gb = gbops.build(case, keys)
    if op == "count":
        res = gb.cumcount(mask=mask)
    else:
        res = getattr(gb, "cum" + op)(vals[0], mask=mask, skip_na=case["skip_na"])
    labels = gbops.labels_of(case)
    sel = model.select(n, case["mask"])
    pyvals = data.val_py(vspec)
    exp = prefix_model(op, labels, pyvals, sel, n, case["skip_na"])
    # non-triviality
    pos = {}
    for i, l in enumerate(labels):
        if l is not None:
            pos.setdefault(l, []).append(i)
    selset = set(sel)
    nt = False
    if len(pos) >= 2:
        for l, ps in pos.items():
            if len(ps) >= 3:
                span = range(ps[0], ps[-1] + 1)
                other = any(labels[i] is not None and labels[i] != l for i in span)
                gap = any((labels[i] is None) or (i not in selset) or (labels[i] == l and pyvals[i] is None) for i in span)
                if other and gap:
                    nt = True
    ctx.seen("gb", case, nt, [f"op:{op}", f"dtype:{vspec['dtype']}", f"skip_na:{case['skip_na']}", "mask:" + ("bool" if case["mask"] else "none"), f"vc:{case['render']['vc']}",
                              f"nkeys:{len(case['keys'])}"])
    if not isinstance(res, pd.Series) or len(res) != n:
        raise Violation(f"shape:{op}", f"{type(res).__name__} of length {len(res)} for {n} rows")
    got = data.series_values(res)
    if op == "sum" and vkind == "f":
        eps = gbops.EPS32 if vspec["dtype"] == "float32" else gbops.EPS64
        tot = sum(abs(v) for v in pyvals if v is not None)
        for i, (e, g) in enumerate(zip(exp, got)):
            if e == ("skip",):
                continue
            if e is None or g is None:
                if not (e is None and g is None):
                    raise Violation(f"gb:{op}", f"row {i}: expected {e!r} got {g!r}")
            elif abs(e - g) > 8 * (n + 1) * eps * tot:
                raise Violation(f"gb:{op}", f"row {i}: expected {e!r} got {g!r}")
    else:
        compare(op, exp, got, 0.0, "gb", vkind)
    # dtype: no detour through floating point
    if op != "count":
        rk = res.dtype.kind if isinstance(res.dtype, np.dtype) else ("M" if isinstance(res.dtype, pd.DatetimeTZDtype) else "O")
        if vkind in "iu" and rk not in "iu":
            raise Violation(f"dtype:{op}", f"{vspec['dtype']} values gave {res.dtype}")
        if vkind in "mM" and rk != vkind:
            raise Violation(f"dtype:{op}", f"{vspec['dtype']} values gave {res.dtype}")
        if vkind == "b" and op in ("min", "max") and rk != "b":
            raise Violation(f"dtype:{op}", f"bool values gave {res.dtype}")
    # last cumulative value per group == group reduction (same mask); only where the model is not silent
    if op != "count" and (case["skip_na"] or all(v is not None for v in pyvals)):
        red = getattr(gbops.build(case, keys, warm=False), op)(vals[0], mask=mask)
        rl, rmap = gbops.result_to_dict(red, "reduction")
        last = {}
        for i in sel:
            if labels[i] is not None:
                last[labels[i]] = i
        for lab, i in last.items():
            if lab not in rmap:
                raise Violation(f"last-vs-reduction:{op}", f"label {lab} missing from reduction")
            r, g = rmap[lab], got[i]
            if vkind in "iu" and op in ("min", "max"):
                continue
            if op == "sum" and vkind == "f":
                ok = (r is None and g is None) or (r is not None and g is not None and abs(r - g) <= 1e-9 * max(1.0, abs(r)))
            else:
                ok = ops.same_values([r], [g], 0.0)
            if not ok:
                raise Violation(f"last-vs-reduction:{op}", f"label {lab}: last cumulative value {g!r}, reduction {r!r}")


SUBS = [
    Sub("enum", enum_check, enumerate=enum_cases, variants=("float", "int", "datetime"), replicas=(6, 16),
        cost={"float": 300, "int": 40, "datetime": 40}),
    Sub("gb", check, strategy=lambda tier, v: case_strategy(v), variants=tuple(VARIANTS), examples=(4500, 90000),
        replicas=(3, 8), cost={v: 250 for v in VARIANTS}),
    # dedicated worker with bounds-checked kernels (sanitizer analogue)
    Sub("gb_boundscheck", check, strategy=lambda tier, v: case_strategy(v), variants=tuple(VARIANTS)[:2], examples=(500, 8000),
        replicas=(1, 1), cost={v: 150 for v in VARIANTS}, env={"NUMBA_BOUNDSCHECK": "1", "NUMBA_CACHE_DIR_SUFFIX": "bc"}),
]
