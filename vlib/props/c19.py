"""C19 Operations never modify their inputs and results do not alias them (history of calls with in-place edits)."""
import copy

import numpy as np
import pandas as pd
import polars as pl
import pyarrow as pa
from hypothesis import strategies as st

from groupby_lib import GroupBy, crosstab
from groupby_lib.groupby import factorization as F

from .. import data, gbops, ops, rejections
from .. import strategies as S
from ..core import Rejected, Sub, Violation
from .c02 import labels_from_index, logical_codes

RULE = (
    "Hypothesis generates a history: keys (n <= 16, 1-2 keys) in a container (NumPy, pandas Series, Categorical, "
    "pa.Array, Arrow-backed pandas, polars; contiguous or chunk-wise layout) and up to 6 steps, each one public "
    "operation from the registry (plus groups, key_count, factorize_2d, crosstab, subset_ratio with two masks) with values in a container (NumPy, "
    "pandas, nullable pandas, Arrow-backed pandas, pa.Array, polars, zero-copy views included) and a mask (boolean array / Series, slice, or positions incl. negative ones); after every "
    "call the returned result is overwritten in place (raw buffer and pandas setitem) and the call is repeated.  "
    "Sub-check `functions`: the stand-alone functions and array-level kernels (ema adjust on/off and time weighted, ema_grouped, "
    "numba.group_* with 1-2 threads, cum*, rolling_*, shift/diff, nan-reducers, nb_dot, pretty_cut, bools_to_categorical) on writable NumPy "
    "arrays, views into a larger buffer and Series, with the same three obligations.  "
    "Non-trivial = the container is not plain NumPy or the history has >= 2 steps on one object.  Distinct = hash of "
    "the history."
)
ORACLE = ("byte snapshots (NumPy buffers, Arrow buffers, index, categorical codes, mask, timestamps) of every input before "
          "== after each call; logical codes and labels of the grouping unchanged; np.shares_memory(result buffer, any "
          "input buffer or internal code array) is False; after overwriting the returned result, inputs are unchanged "
          "and the repeated call equals a saved copy of the first result")
ASSUMPTIONS = ["results that are read-only and refuse in-place edits are counted as 'not writable' (nothing to corrupt)"]

EXTRA = ("groups", "key_count", "factorize_2d", "crosstab", "subset_ratio", "quantile_scalar_frame", "median_frame")


def snapshot(obj):
    """Stable byte-level fingerprint of an input container."""
    if obj is None:
        return None
    if isinstance(obj, np.ndarray):
        return ("np", obj.dtype.str, obj.shape, obj.tobytes() if obj.dtype != object else repr(obj.tolist()))
    if isinstance(obj, pd.Series):
        return ("series", snapshot(obj.index), str(obj.dtype), snapshot(obj.array), obj.name)
    if isinstance(obj, pd.Index):
        return ("index", str(obj.dtype), repr(obj.tolist()), obj.name)
    if isinstance(obj, pd.Categorical):
        return ("cat", obj.codes.tobytes(), repr(list(obj.categories)), obj.ordered)
    if isinstance(obj, pd.api.extensions.ExtensionArray):
        if hasattr(obj, "_pa_array"):
            return snapshot(obj._pa_array)
        return ("ea", str(obj.dtype), repr(obj.tolist()))
    if isinstance(obj, pa.ChunkedArray):
        return ("pac", str(obj.type), tuple(snapshot(c) for c in obj.chunks))
    if isinstance(obj, pa.Array):
        return ("pa", str(obj.type), len(obj), obj.offset, tuple(None if b is None else b.to_pybytes() for b in obj.buffers()))
    if isinstance(obj, pl.Series):
        return ("pl", str(obj.dtype), snapshot(obj.to_arrow()))
    if isinstance(obj, pl.DataFrame):
        return ("pldf", tuple((c, snapshot(obj[c])) for c in obj.columns))
    if isinstance(obj, pd.DataFrame):
        return ("df", snapshot(obj.index), tuple((c, snapshot(obj[c])) for c in obj.columns))
    if isinstance(obj, (list, tuple)):
        return ("seq", tuple(snapshot(x) for x in obj))
    if isinstance(obj, dict):
        return ("dict", tuple((k, snapshot(v)) for k, v in obj.items()))
    if isinstance(obj, slice):
        return ("slice", obj.start, obj.stop, obj.step)
    return ("other", repr(obj))


def raw_buffers(obj):
    """NumPy arrays sharing memory with the container (for aliasing probes)."""
    out = []
    if obj is None:
        return out
    if isinstance(obj, np.ndarray):
        if obj.dtype != object:
            out.append(obj)
    elif isinstance(obj, pd.Series):
        out += raw_buffers(obj.array)
    elif isinstance(obj, pd.Categorical):
        out.append(obj.codes)
    elif isinstance(obj, pd.api.extensions.ExtensionArray):
        if hasattr(obj, "_pa_array"):
            out += raw_buffers(obj._pa_array)
        elif hasattr(obj, "_ndarray"):
            out.append(obj._ndarray)
        elif hasattr(obj, "_data"):
            out.append(np.asarray(obj._data))
    elif isinstance(obj, pa.ChunkedArray):
        for c in obj.chunks:
            out += raw_buffers(c)
    elif isinstance(obj, pa.Array):
        for b in obj.buffers():
            if b is not None and b.size:
                out.append(np.frombuffer(b, dtype=np.uint8))
    elif isinstance(obj, pl.Series):
        out += raw_buffers(obj.to_arrow())
    elif isinstance(obj, (pd.DataFrame,)):
        for c in obj.columns:
            out += raw_buffers(obj[c])
    elif isinstance(obj, pl.DataFrame):
        for c in obj.columns:
            out += raw_buffers(obj[c])
    elif isinstance(obj, (list, tuple)):
        for x in obj:
            out += raw_buffers(x)
    elif isinstance(obj, dict):
        for x in obj.values():
            out += raw_buffers(x)
    return out


def result_arrays(res):
    """Writable / probe-able NumPy arrays behind a result."""
    out = []
    if isinstance(res, pd.Series):
        # what a caller can reach through the public API (.values); pandas hands out read-only arrays for shared data
        try:
            v = res.values
            if isinstance(v, np.ndarray) and v.dtype != object:
                out.append(v)
            # Arrow-backed results are immutable value containers: sharing (immutable) Arrow buffers is harmless
        except Exception:
            pass
    elif isinstance(res, pd.DataFrame):
        for c in range(res.shape[1]):
            out += result_arrays(res.iloc[:, c])
    elif isinstance(res, np.ndarray):
        out.append(res)
    elif isinstance(res, dict):
        for v in res.values():
            if isinstance(v, np.ndarray):
                out.append(v)
    elif isinstance(res, tuple):
        for v in res:
            out += result_arrays(v)
    elif isinstance(res, pd.Index):
        pass
    return out


def scribble(res):
    """Overwrite a returned result in place, through the raw buffers and through pandas setitem. Returns #writes."""
    writes = 0
    for a in result_arrays(res):
        try:
            if a.flags.writeable and a.size:
                a[...] = np.frombuffer(bytes([0xA5]) * a.itemsize, dtype=a.dtype)[0] if a.dtype.kind not in "O" else a
                writes += 1
        except Exception:
            pass
    try:
        if isinstance(res, pd.Series) and len(res):
            res.iloc[:] = res.iloc[0]
            writes += 1
        elif isinstance(res, pd.DataFrame) and res.shape[0] and res.shape[1]:
            res.iloc[:, 0] = res.iloc[0, 0]
            writes += 1
    except Exception:
        pass
    return writes


@st.composite
def history(draw, variant):
    n = draw(st.sampled_from([2, 3, 4, 6, 8, 12, 16]))
    layout = draw(st.sampled_from(["contiguous", "contiguous", "chunkwise"]))
    if layout == "chunkwise":
        n = max(n, 4)
        keys = [draw(S.key_column(n, types=("int", "float"), max_labels=3, shape="random"))]
        kc = "np"
    else:
        keys = draw(S.keys(n, nkeys=(1, 2), max_labels=3))
        kc = draw(st.sampled_from(["np", "series", "pa", "pd_arrow", "pl", "native"]))
    steps = []
    for _ in range(draw(st.integers(1, 6))):
        names = sorted(ops.OPS) + list(EXTRA)
        op = draw(st.sampled_from(names))
        step = {"op": op}
        if op in ops.OPS:
            o = ops.OPS[op]
            kinds = [k for k in "fim" if k in o.value_kinds] or ["f"]
            kind = draw(st.sampled_from(kinds))
            dt = {"f": ("float64", "float32"), "i": ("int64", "int16"), "m": ("m8[ns]",)}[kind]
            step["vals"] = draw(S.value_column(n, dtypes=dt, regime="exact"))
            step["vc"] = draw(st.sampled_from(["np", "np_view", "series", "series_nullable", "pd_arrow", "pa", "pl"]))
            mk = draw(st.sampled_from(o.masks))
            step["mask"] = None if mk == "none" else draw(S.mask_spec(n, kinds=(mk,), negative_pos=o.kind == "red", steps=layout == "contiguous"))
            step["mc"] = draw(st.sampled_from(["np", "series"]))
            step["kw"] = o.kw(draw, n) if o.kw else {}
        elif op == "subset_ratio":
            step["vals"] = draw(S.value_column(n, dtypes=("float64",), regime="exact"))
            step["vc"] = draw(st.sampled_from(["np", "series"]))
            step["mask"] = draw(S.mask_spec(n, kinds=("bool",)))
            step["mask2"] = draw(S.mask_spec(n, kinds=("bool",)))
            step["mc"] = draw(st.sampled_from(["np", "series"]))
        elif op in ("crosstab", "quantile_scalar_frame", "median_frame"):
            step["vals"] = draw(S.value_column(n, dtypes=("float64",), regime="exact"))
        steps.append(step)
    return {"n": n, "keys": keys, "kc": kc, "layout": layout, "steps": steps, "sort": draw(st.sampled_from([True, False])),
            "threshold": draw(st.integers(1, n)), "key_chunks": draw(st.integers(1, 4))}


def render_key_obj(case, k):
    kc = case["kc"]
    if k["t"] == "cat":
        return data.render_key(k, "cat" if kc in ("native", "np", "pa", "pl") else "series")
    if kc == "native":
        kc = "np"
    if kc in ("pa", "pd_arrow", "pl") and k["t"] in ("dt", "bool"):
        kc = "series"
    return data.render_key(k, kc)


def render_value_obj(step, n):
    vs, vc = step["vals"], step.get("vc", "np")
    if vc == "np_view":
        base = np.concatenate([data.val_numpy(vs), data.val_numpy(vs)])
        return base[:n], base  # a view of a larger buffer
    if vs["dtype"].startswith("m8") and vc in ("pa", "series_nullable"):
        vc = "series"
    return data.render_val(vs, vc), None


def run_op(gb, keys_objs, step, case, values, mask, mask2=None):
    op = step["op"]
    if op == "subset_ratio":
        return gb.subset_ratio(values, mask, mask2)
    if op in ops.OPS:
        o = ops.OPS[op]
        return o.call(gb, values if o.needs_values else None, mask, copy.deepcopy(step.get("kw", {})))
    if op == "groups":
        return dict(gb.groups)
    if op == "key_count":
        return gb.key_count
    if op == "quantile_scalar_frame":
        # two value columns and a scalar q: the frame-shaped result of the apply route
        return gb.quantile({"a": values, "b": values}, q=0.5)
    if op == "median_frame":
        return gb.median({"a": values, "b": values})
    if op == "factorize_2d":
        ks = keys_objs if len(keys_objs) > 1 else [keys_objs[0], keys_objs[0]]
        return F.factorize_2d(*ks, factorize_in_parallel=not any(isinstance(k, pl.Series) for k in ks))
    if op == "crosstab":
        k2 = keys_objs[1] if len(keys_objs) > 1 else keys_objs[0]
        if any(isinstance(k, pl.Series) for k in (keys_objs[0], k2)):
            # the library factorizes several keys in a thread pool; converting polars Series from two Python threads
            # dead-locked (while holding the GIL, so no watchdog can fire) in this long-lived process: not generated
            raise Rejected("crosstab:polars-keys-in-thread-pool (dead-lock hazard, see DESIGN 7.3)")
        return crosstab(keys_objs[0], k2, values, aggfunc="sum")
    raise ValueError(op)


def check(case, ctx):
    n = case["n"]
    keys_objs = [render_key_obj(case, k) for k in case["keys"]]
    key_snap = snapshot(keys_objs)
    shim = gbops.Shims(threshold=case["threshold"], key_chunks=case["key_chunks"]) if case["layout"] == "chunkwise" else gbops.Shims()
    rej = [r for k in case["keys"] for r in rejections.key_rows(case["kc"], k)]
    try:
        with shim:
            gb = GroupBy(keys_objs[0] if len(keys_objs) == 1 else list(keys_objs), sort=case["sort"])
            codes0 = logical_codes(gb).tolist()
    except Exception as e:  # noqa
        row = rejections.match(rej, e)
        if row:
            raise Rejected(row)
        raise
    labels0 = labels_from_index(gb.result_index)
    names0 = list(gb.result_index.names)
    ctx.seen("history", case, case["kc"] != "np" or len(case["steps"]) >= 2 or any(s.get("vc", "np") != "np" for s in case["steps"]),
             [f"kc:{case['kc']}", f"layout:{case['layout']}", f"steps:{len(case['steps'])}"] + [f"op:{s['op']}" for s in case["steps"]] +
             [f"vc:{s.get('vc')}" for s in case["steps"] if "vc" in s])
    if snapshot(keys_objs) != key_snap:
        raise Violation("keys-modified:construction", "building the GroupBy changed the key container")
    for i, step in enumerate(case["steps"]):
        if "vals" in step:
            values, base = render_value_obj(step, n)
        else:
            values, base = None, None
        index = values.index if isinstance(values, pd.Series) else None
        mask = data.render_mask(step.get("mask"), n, step.get("mc", "np"), index)
        if isinstance(mask, pd.Series) and index is None and any(isinstance(k, pd.Series) for k in keys_objs):
            mask = mask.to_numpy()
        if any(isinstance(k, pd.Series) for k in keys_objs) and isinstance(values, pd.Series):
            values.index = keys_objs[[isinstance(k, pd.Series) for k in keys_objs].index(True)].index
        mask2 = data.render_mask(step.get("mask2"), n, step.get("mc", "np"), index)
        if isinstance(mask2, pd.Series) and not isinstance(mask, pd.Series):
            mask2 = mask2.to_numpy()
        kwsnap = snapshot(step.get("kw", {}).get("times"))
        snaps = (snapshot(values), snapshot(base), snapshot([mask, mask2]), snapshot(keys_objs))
        vrej = rejections.val_rows(step.get("vc", "np"), step["vals"]) if "vals" in step else []
        try:
            res = run_op(gb, keys_objs, step, case, values, mask, mask2)
        except Exception as e:  # noqa
            row = rejections.match(vrej, e)
            if row:
                raise Rejected(row)
            raise
        what = f"step {i} ({step['op']}, values in {step.get('vc')})"
        if (snapshot(values), snapshot(base), snapshot([mask, mask2]), snapshot(keys_objs)) != snaps:
            raise Violation(f"input-modified:{step['op']}", f"{what}: an input container changed during the call")
        if logical_codes(gb).tolist() != codes0 or labels_from_index(gb.result_index) != labels0:
            raise Violation(f"grouping-modified:{step['op']}", f"{what}: logical codes / labels changed")
        if list(gb.result_index.names) != names0:
            raise Violation(f"grouping-index-renamed:{step['op']}", f"{what}: the grouping's label index is now named {list(gb.result_index.names)} (was {names0})")
        # aliasing probes
        internal = []
        ik = gb.group_ikey
        if isinstance(ik, np.ndarray):
            internal.append(ik)
        ins = raw_buffers(values) + raw_buffers(base) + raw_buffers(mask) + raw_buffers(mask2) + raw_buffers(keys_objs) + internal
        for ra in result_arrays(res):
            for ia in ins:
                try:
                    shared = np.shares_memory(ra, ia)
                except Exception:
                    shared = False
                if shared:
                    ctx.classes["alias_observed"] += 1
                    if ra.flags.writeable:
                        # a writable view of an input: an in-place edit of the result would write through
                        raise Violation(f"result-aliases-input:{step['op']}", f"{what}: the result is a WRITABLE view of an input / internal code array")
        # overwrite the result, then repeat the call
        saved = ops.normalise(res) if not isinstance(res, (dict, tuple)) else None
        writes = scribble(res)
        ctx.classes["result_writable" if writes else "result_not_writable"] += 1
        if (snapshot(values), snapshot(base), snapshot([mask, mask2]), snapshot(keys_objs)) != snaps:
            raise Violation(f"write-through-to-input:{step['op']}", f"{what}: overwriting the returned result changed an input")
        if logical_codes(gb).tolist() != codes0 or labels_from_index(gb.result_index) != labels0:
            raise Violation(f"write-through-to-grouping:{step['op']}", f"{what}: overwriting the returned result changed the grouping's codes / labels")
        if list(gb.result_index.names) != names0:
            raise Violation(f"grouping-index-renamed:{step['op']}", f"{what}: the grouping's label index is now named {list(gb.result_index.names)} (was {names0}): "
                                                                    "a result shares the grouping's own Index object")
        if saved is not None:
            res2 = run_op(gb, keys_objs, step, case, values, mask, mask2)
            try:
                ops.compare_norm(saved, ops.normalise(res2), tol=1e-12, what="repeat")
            except Violation as v:
                raise Violation(f"repeat-differs-after-overwrite:{step['op']}", f"{what}: {v.msg[:300]}")


# ---------------------------------------------------------------------------
# stand-alone functions and array-level kernels: same three obligations (inputs unchanged, result no writable view of an
# input, overwriting the result changes neither the inputs nor a repeated call)
def _fn_table():
    from groupby_lib import bools_to_categorical, ema, ema_grouped, nanops, nb_dot, pretty_cut
    from groupby_lib.groupby import numba as nbf

    T = {
        "ema_alpha": lambda A: ema(A["v"], alpha=0.5, adjust=A["adjust"]),
        "ema_halflife": lambda A: ema(A["v"], halflife=2.0, adjust=A["adjust"]),
        "ema_timed": lambda A: ema(A["v"], halflife="1s", times=A["t"]),
        "ema_grouped": lambda A: ema_grouped(A["codes"], 3, A["v"], alpha=0.5, mask=A["m"]),
        "ema_grouped_timed": lambda A: ema_grouped(A["codes"], 3, A["v"], halflife="1s", times=A["t"], mask=A["m"]),
        "nb_dot": lambda A: nb_dot(A["mat"], A["vec"]),
        "pretty_cut": lambda A: pretty_cut(A["v"], [-2.0, 0.0, 2.5]),
        "bools_to_categorical": lambda A: bools_to_categorical(A["bools"]),
    }
    for k in ("sum", "mean", "min", "max", "first", "last", "count"):
        T[f"group_{k}"] = (lambda f: lambda A: f(A["codes"], A["v"], 3, mask=A["m"], n_threads=A["nt"]))(getattr(nbf, f"group_{k}"))
    for k in ("cumsum", "cummin", "cummax"):
        T[f"nb_{k}"] = (lambda f: lambda A: f(A["codes"], A["v"], 3, mask=A["m"]))(getattr(nbf, k))
    for k in ("rolling_sum", "rolling_mean", "rolling_min", "rolling_max", "rolling_shift", "rolling_diff"):
        T[f"nb_{k}"] = (lambda f: lambda A: f(A["codes"], A["v"], 3, 2, mask=A["m"]))(getattr(nbf, k))
    for k in ("nansum", "nanmean", "nanmin", "nanmax", "nanvar", "nanstd"):
        T[k] = (lambda f: lambda A: f(A["v"], n_threads=A["nt"]))(getattr(nanops, k))
    return T


FN_NAMES = ("ema_alpha", "ema_halflife", "ema_timed", "ema_grouped", "ema_grouped_timed", "nb_dot", "pretty_cut", "bools_to_categorical",
            "group_sum", "group_mean", "group_min", "group_max", "group_first", "group_last", "group_count", "nb_cumsum", "nb_cummin",
            "nb_cummax", "nb_rolling_sum", "nb_rolling_mean", "nb_rolling_min", "nb_rolling_max", "nb_rolling_shift", "nb_rolling_diff",
            "nansum", "nanmean", "nanmin", "nanmax", "nanvar", "nanstd")


@st.composite
def fn_case(draw, variant):
    n = draw(st.sampled_from([2, 3, 4, 6, 8, 12]))
    fn = draw(st.sampled_from(FN_NAMES))
    dt = draw(st.sampled_from(["float64", "float64", "float32", "int64"]))
    if fn.startswith(("nb_rolling", "ema")) and dt == "float32" and draw(st.booleans()):
        dt = "float64"
    vc = draw(st.sampled_from(["np", "np_view", "series"])) if not fn.startswith(("group_", "nb_", "nan")) else draw(st.sampled_from(["np", "np_view"]))
    return {"n": n, "fn": fn, "vals": draw(S.value_column(n, dtypes=(dt,), regime="exact", null_modes=["none", "none", "some"])), "vc": vc,
            "codes": draw(st.lists(st.integers(-1, 2), min_size=n, max_size=n)), "adjust": draw(st.booleans()),
            "mask": draw(st.one_of(st.none(), st.lists(st.booleans(), min_size=n, max_size=n))), "nt": draw(st.sampled_from([1, 1, 2])),
            "tmode": draw(st.sampled_from(["ordered", "ordered", "late_stamp", "nat"]))}


def _fn_times(case, n):
    t = 10**18 + np.arange(n, dtype=np.int64) * 10**9
    mode = case.get("tmode", "ordered")
    if mode == "late_stamp" and n >= 2:
        t[n // 2] = t[0] - 5 * 10**9  # a stamp earlier than its predecessor
    elif mode == "nat" and n >= 2:
        t[n // 2] = np.iinfo(np.int64).min
    return t.view("M8[ns]")


def fn_check(case, ctx):
    n, fn = case["n"], case["fn"]
    v, base = render_value_obj({"vals": case["vals"], "vc": case["vc"]}, n)
    A = {"v": v, "codes": np.array(case["codes"], dtype=np.int64), "adjust": case["adjust"],
         "m": None if case["mask"] is None else np.array(case["mask"], dtype=bool), "nt": min(case["nt"], n),
         "t": _fn_times(case, n),
         "vec": np.arange(1.0, 4.0), "mat": None, "bools": None}
    fl = np.asarray(pd.Series(np.asarray(v)).astype("float64").fillna(0.0))
    A["mat"] = np.column_stack([fl, fl * 2, fl + 1])
    A["bools"] = pd.DataFrame({"a": fl > 0, "b": fl < 0})
    f = _fn_table()[fn]
    ctx.seen("functions", case, case["vc"] != "np" or case["adjust"] is False, [f"fn:{fn}", f"fvc:{case['vc']}", f"fdtype:{case['vals']['dtype']}", f"adjust:{case['adjust']}", f"tmode:{case.get('tmode')}"])
    names = ("v", "codes", "m", "t", "vec", "mat", "bools")
    snaps = tuple(snapshot(A[k]) for k in names) + (snapshot(base),)
    res = f(A)
    what = f"{fn} (values in {case['vc']} {case['vals']['dtype']})"
    if tuple(snapshot(A[k]) for k in names) + (snapshot(base),) != snaps:
        raise Violation(f"fn-input-modified:{fn}", f"{what}: an input changed during the call")
    ins = [b for k in names for b in raw_buffers(A[k])] + raw_buffers(base)
    for ra in result_arrays(res):
        for ia in ins:
            try:
                shared = np.shares_memory(ra, ia)
            except Exception:
                shared = False
            if shared and ra.flags.writeable:
                raise Violation(f"fn-result-aliases-input:{fn}", f"{what}: the result is a WRITABLE view of an input")
    def _norm(r):
        if isinstance(r, np.generic) or (isinstance(r, np.ndarray) and r.ndim == 0) or isinstance(r, (int, float)):
            r = np.atleast_1d(np.asarray(r)).copy()
        return ops.normalise(r) if isinstance(r, (np.ndarray, pd.Series, pd.DataFrame, pl.Series, pl.DataFrame)) else None

    saved = _norm(res)
    scribble(res)
    if tuple(snapshot(A[k]) for k in names) + (snapshot(base),) != snaps:
        raise Violation(f"fn-write-through-to-input:{fn}", f"{what}: overwriting the returned result changed an input")
    if saved is not None:
        res2 = f(A)
        try:
            ops.compare_norm(saved, _norm(res2), tol=1e-12, what="repeat")
        except Violation as e:
            raise Violation(f"fn-repeat-differs:{fn}", f"{what}: {e.msg[:300]}")


SUBS = [
    Sub("functions", fn_check, strategy=lambda tier, v: fn_case(v), variants=("-",), examples=(4000, 60000), replicas=(2, 4), cost={"-": 200}),
    Sub("history", check, strategy=lambda tier, v: history(v), variants=("-",), examples=(6400, 100000), replicas=(16, 16), cost={"-": 1600}),
]
