"""C20 Stand-alone array helpers agree with their NumPy definitions."""
import itertools
import math
import os
import warnings
from fractions import Fraction

import numpy as np
import pandas as pd
import polars as pl
from hypothesis import strategies as st

from groupby_lib import bools_to_categorical, nanops, nb_dot, pretty_cut

from .. import model
from ..core import Sub, Violation

RULE = (
    "nanops: 1-D float64/float32/int64/int32 arrays of length 1..64 with null placements (none, scattered, all-null "
    "blocks aligned and misaligned with the thread split, all null) x n_threads 1..8 (lengths below the thread count "
    "forced; one shard runs under NUMBA_BOUNDSCHECK=1) x {sum,mean,min,max,var,std,count}; 2-D arrays up to 8x6 for "
    "sum/min/max on both axes.  nb_dot: 2-D arrays, pandas and polars frames times a vector.  bools_to_categorical: "
    "ALL boolean frames with rows*cols <= 12 (rows <= 6, cols <= 4) enumerated, larger frames (up to 17 columns) "
    "sampled.  pretty_cut: int and float values x int/float bin edges (unsorted edges, values equal to edges and "
    "nulls forced).  Non-trivial: nanops = some thread block is all-null or empty or the array is shorter than the "
    "thread count; frames = >= 2 distinct row patterns; pretty_cut = a value equal to an edge.  Distinct = case hash "
    "/ by construction."
)
ORACLE = ("np.nansum/nanmean/nanmin/nanmax/nanvar/nanstd and the non-null count (sums within 4(n+1)eps*sum|x|, variance "
          "within the C16 bound, selections exact); a @ b; label split by sep == set of true columns (na_rep for none); "
          "pretty_cut: the printed bounds of the assigned bin, parsed back, contain the value; nulls get no bin")
ASSUMPTIONS = ["integer arrays never contain int64.min (the library's integer null marker)",
               "bin edges are pairwise distinct"]
EPS = 2.0 ** -52


# ---------------------------------------------------------------------------
@st.composite
def nan_case(draw, variant):
    n = draw(st.integers(1, 64))
    nt = draw(st.integers(1, 8))
    if draw(st.sampled_from([True, False, False])):
        n = draw(st.integers(1, max(1, nt)))  # fewer elements than threads
    dtype = draw(st.sampled_from(["float64", "float64", "float32", "int64", "int32", "uint64", "uint8"]))
    if dtype.startswith("float"):
        vals = draw(st.lists(st.integers(-4096, 4096).map(lambda k: k / 8), min_size=n, max_size=n))
        mode = draw(st.sampled_from(["none", "scattered", "block", "block_misaligned", "all"]))
        if mode == "scattered":
            z = draw(st.lists(st.booleans(), min_size=n, max_size=n))
        elif mode == "all":
            z = [True] * n
        elif mode in ("block", "block_misaligned"):
            bounds = np.cumsum([0] + [len(c) for c in np.array_split(np.arange(n), nt)])
            j = draw(st.integers(0, nt - 1))
            lo, hi = int(bounds[j]), int(bounds[j + 1])
            if mode == "block_misaligned":
                lo, hi = max(0, lo - 1), min(n, hi + 1)
            z = [lo <= i < hi for i in range(n)]
        else:
            z = [False] * n
        vals = [None if b else v for v, b in zip(vals, z)]
        func = draw(st.sampled_from(["sum", "mean", "min", "max", "var", "std", "count"]))
    else:
        func = draw(st.sampled_from(["sum", "mean", "min", "max", "var", "std", "count"]))
        if dtype.startswith("uint"):
            # unsigned values, for uint64 in the upper half of the range as well (beyond every signed 64-bit integer)
            big = func in ("sum", "min", "max", "mean", "count") and draw(st.booleans())
            top = ((2**64 - 1) if dtype == "uint64" else 255) // (n if func in ("sum", "mean") else 1) if big else 200 // (n if dtype == "uint8" and func in ("sum", "mean") else 1)
            top = max(top, 1)
            extra = [x for x in (2**63, 2**63 + 5, 2**64 - 1) if x <= top] or [top]
            vals = draw(st.lists(st.one_of(st.integers(0, top), st.sampled_from(extra)), min_size=n, max_size=n))
        elif draw(st.sampled_from([True, False])) and func in ("sum", "min", "max"):
            # integers that float64 cannot hold exactly (the sum stays inside the dtype)
            top = (2**62 if dtype == "int64" else 2**30) // (n if func == "sum" else 1)
            vals = draw(st.lists(st.one_of(st.integers(-top, top), st.sampled_from([top, -top, top - 1, 2**53 + 1 if dtype == "int64" and top > 2**53 else 1])),
                                 min_size=n, max_size=n))
        else:
            vals = draw(st.lists(st.integers(-10**6, 10**6), min_size=n, max_size=n))
    return {"dtype": dtype, "vals": vals, "n_threads": nt, "func": func, "ddof": draw(st.sampled_from([0, 1]))}


def nan_check(case, ctx):
    dtype, vals, nt, func = case["dtype"], case["vals"], case["n_threads"], case["func"]
    n = len(vals)
    if dtype.startswith("float"):
        arr = np.array([np.nan if v is None else v for v in vals], dtype=dtype)
    else:
        arr = np.array(vals, dtype=dtype)
    blocks = np.array_split(np.arange(n), nt)
    nt_flag = n < nt or any(len(b) == 0 or all(vals[i] is None for i in b) for b in blocks)
    ctx.seen("nanops", case, nt_flag and nt > 1, [f"nan:func:{func}", f"nan:nt:{nt}", f"nan:dtype:{dtype}", f"nan:short:{n < nt}",
                                                 f"nan:boundscheck:{os.environ.get('NUMBA_BOUNDSCHECK', '0')}"])
    nn = [float(np.dtype(dtype).type(v)) if dtype.startswith("float") else v for v in vals if v is not None]
    with warnings.catch_warnings():
        warnings.simplefilter("ignore")
        if func == "count":
            got = nanops.count(arr)
            if int(got) != len(nn):
                raise Violation("nanops:count", f"{got} != {len(nn)}")
            return
        if func in ("var", "std"):
            got = getattr(nanops, "nan" + func)(arr, n_threads=nt, ddof=case["ddof"])
            exp = getattr(np, "nan" + func)(arr.astype("float64"), ddof=case["ddof"]) if len(nn) else np.nan
        else:
            got = getattr(nanops, "nan" + func)(arr, n_threads=nt)
            exp = getattr(np, "nan" + func)(arr)
    if isinstance(got, complex) or np.asarray(got).dtype.kind == "c":
        raise Violation(f"nanops:{func}:complex", f"library returned the complex number {got!r} (values {vals})")
    if dtype.startswith("int") and func in ("sum", "min", "max"):
        # integer in, exact integer out (NumPy's nan-functions return the integer): no detour through float64
        if np.asarray(got).dtype.kind not in "iu" or int(got) != int(exp):
            raise Violation(f"nanops:{func}:int-exact", f"numpy {exp!r} library {got!r} of dtype {np.asarray(got).dtype} (n_threads={nt}, values {vals})")
        return
    g = None if (isinstance(got, float) or np.asarray(got).dtype.kind == "f") and np.isnan(got) else float(got)
    e = None if np.isnan(exp) else float(exp)
    if func in ("min", "max"):
        ok = g == e
    elif func in ("sum", "mean"):
        eps = 2.0 ** -23 if dtype == "float32" else EPS
        tol = 4 * (n + 1) * eps * sum(abs(x) for x in nn) + 1e-300
        ok = (g is None and e is None) or (g is not None and e is not None and abs(g - e) <= tol)
    else:
        d = len(nn) - case["ddof"]
        if d <= 0:
            ok = g is None
        else:
            eps = 2.0 ** -23 if dtype == "float32" else EPS
            bound = 16 * len(nn) * eps * sum(x * x for x in nn) / max(1, d) + 1e-300
            if func == "var":
                ok = g is not None and abs(g - e) <= bound
            else:
                ok = (g is None and e * e <= bound) or (g is not None and abs(g * g - e * e) <= bound + 8 * eps * e * e)
    if not ok:
        raise Violation(f"nanops:{func}", f"numpy {e!r} library {g!r} (n_threads={nt}, values {vals})")


@st.composite
def nan2d_case(draw, variant):
    r, c = draw(st.integers(1, 8)), draw(st.integers(1, 6))
    vals = draw(st.lists(st.lists(st.one_of(st.none(), st.integers(-512, 512).map(lambda k: k / 4)), min_size=c, max_size=c), min_size=r, max_size=r))
    return {"vals": vals, "axis": draw(st.sampled_from([0, 1])), "func": draw(st.sampled_from(["sum", "min", "max"])), "n_threads": draw(st.integers(1, 4))}


def nan2d_check(case, ctx):
    arr = np.array([[np.nan if v is None else v for v in row] for row in case["vals"]], dtype=float)
    ctx.seen("nanops2d", case, arr.shape[0] > 1 and arr.shape[1] > 1 and np.isnan(arr).any(), [f"nan2d:{case['func']}", f"nan2d:axis:{case['axis']}"])
    with warnings.catch_warnings():
        warnings.simplefilter("ignore")
        got = getattr(nanops, "nan" + case["func"])(arr, axis=case["axis"], n_threads=case["n_threads"])
        exp = getattr(np, "nan" + case["func"])(arr, axis=case["axis"])
    got = np.asarray(got, dtype=float)
    if got.shape != exp.shape or not np.array_equal(got, exp, equal_nan=True):
        raise Violation(f"nanops2d:{case['func']}", f"axis={case['axis']}: numpy {exp.tolist()} library {got.tolist()}")


# ---------------------------------------------------------------------------
@st.composite
def dot_case(draw, variant):
    r, c = draw(st.integers(0, 8)), draw(st.integers(1, 5))
    kind = draw(st.sampled_from(["int", "float", "mixed"]))
    elem = st.integers(-50, 50) if kind == "int" else st.integers(-400, 400).map(lambda k: k / 8)
    if kind != "int" and draw(st.sampled_from([True, False])):
        # non-finite entries propagate through the ordinary product, also under a zero coefficient
        elem = st.one_of(elem, elem, st.sampled_from(["nan", "inf", "-inf"]))
    a = draw(st.lists(st.lists(elem, min_size=c, max_size=c), min_size=r, max_size=r))
    b = draw(st.lists(st.integers(-9, 9) if kind != "float" else st.integers(-64, 64).map(lambda k: k / 8), min_size=c, max_size=c))
    return {"a": a, "b": b, "kind": kind, "container": draw(st.sampled_from(["np", "pd", "pl"]))}


def dot_check(case, ctx):
    a = np.array([[float(x) for x in row] for row in case["a"]] if case["kind"] != "int" else case["a"],
                 dtype=float if case["kind"] != "int" else np.int64).reshape(len(case["a"]), len(case["b"]))
    b = np.array(case["b"], dtype=float if case["kind"] == "float" else np.int64)
    nonfinite = case["kind"] != "int" and not np.isfinite(a).all()
    ctx.seen("nb_dot", case, a.shape[0] >= 2 and a.shape[1] >= 2, [f"dot:{case['container']}", f"dot:{case['kind']}", f"dot:nonfinite:{nonfinite}",
                                                                   f"dot:zero-weight-on-nonfinite:{bool(nonfinite and (~np.isfinite(a)[:, b == 0]).any())}"])
    if case["container"] == "np":
        obj = a
    elif case["container"] == "pd":
        obj = pd.DataFrame(a, columns=[f"c{i}" for i in range(a.shape[1])], index=[f"r{i}" for i in range(a.shape[0])])
    else:
        obj = pl.DataFrame({f"c{i}": a[:, i] for i in range(a.shape[1])})
    got = nb_dot(obj, b)
    with warnings.catch_warnings():
        warnings.simplefilter("ignore")
        exp = a @ b
    g = np.asarray(got if not isinstance(got, pl.Series) else got.to_numpy(), dtype=float)
    if g.shape != exp.shape or not np.allclose(g, exp, rtol=0, atol=1e-9, equal_nan=True):
        raise Violation(f"nb_dot:{case['container']}", f"a@b = {exp.tolist()} library {g.tolist()}")
    if case["container"] == "pd" and not (isinstance(got, pd.Series) and list(got.index) == list(obj.index)):
        raise Violation("nb_dot:index", "pandas frame in, Series with the frame's index expected")


# ---------------------------------------------------------------------------
def check_frame(bits, ncols, sep, na_rep, names=None):
    names = names or [f"c{i}" for i in range(ncols)]
    df = pd.DataFrame(np.array(bits, dtype=bool).reshape(-1, ncols), columns=names)
    out = bools_to_categorical(df, sep=sep, na_rep=na_rep)
    if len(out) != len(df):
        raise Violation("bools:length", f"{len(out)} labels for {len(df)} rows")
    for i in range(len(df)):
        true_cols = [c for c in names if df[c].iloc[i]]
        lab = out.iloc[i]
        got_cols = [] if lab == na_rep else lab.split(sep)
        if got_cols != true_cols:
            raise Violation("bools:label", f"row {i}: true columns {true_cols}, label {lab!r}")


def bools_enum(tier, variant, replica, nreplicas):
    i = 0
    for r in range(1, 7):
        for c in range(1, 5):
            if r * c > (12 if tier == "quick" else 16):
                continue
            for bits in itertools.product([0, 1], repeat=r * c):
                i += 1
                if i % nreplicas != replica:
                    continue
                yield {"bits": list(bits), "ncols": c}


def bools_enum_check(case, ctx):
    ctx.evaluations += 1
    ctx.per_sub["bools_enum"] += 1
    rows = {tuple(case["bits"][i:i + case["ncols"]]) for i in range(0, len(case["bits"]), case["ncols"])}
    if len(rows) >= 2:
        ctx.nontrivial_constructed += 1
        if len(ctx.samples) < ctx.sample_cap and ctx.evaluations % 997 == 0:
            ctx.samples.append({"sub": "bools_enum", "case": case})
    check_frame(case["bits"], case["ncols"], " & ", "None")
    lim = 12 if ctx.tier == "quick" else 16
    txt = f"bools_to_categorical: all boolean frames with rows<=6, cols<=4, rows*cols<={lim}"
    if txt not in ctx.exhaustive:
        ctx.exhaustive.append(txt)


@st.composite
def bools_case(draw, variant):
    c = draw(st.integers(1, 17))
    r = draw(st.integers(0, 12))
    return {"bits": draw(st.lists(st.integers(0, 1), min_size=r * c, max_size=r * c)), "ncols": c,
            "sep": draw(st.sampled_from([" & ", "|", "+"])), "na_rep": draw(st.sampled_from(["None", "-", "nothing"]))}


def bools_check(case, ctx):
    c = case["ncols"]
    rows = {tuple(case["bits"][i:i + c]) for i in range(0, len(case["bits"]), c)}
    ctx.seen("bools", case, len(rows) >= 2, [f"bools:cols:{'<8' if c < 8 else ('<16' if c < 16 else '>=16')}"])
    check_frame(case["bits"], c, case["sep"], case["na_rep"])


# ---------------------------------------------------------------------------
@st.composite
def cut_case(draw, variant):
    kind = draw(st.sampled_from(["int_int", "float_float", "float_int", "int_float"]))
    nb = draw(st.integers(1, 6))
    if kind.endswith("_int"):
        bins = draw(st.lists(st.integers(-50, 200), min_size=nb, max_size=nb, unique=True))
    else:
        bins = draw(st.lists(st.sampled_from([0.5, 5.5, 10.25, 0.125, 2.0, 100.0, 33.3, 7.75, -1.5, 10.2, 0.1, 99.99]), min_size=nb, max_size=nb, unique=True))
    if draw(st.booleans()):
        bins = sorted(bins)
    n = draw(st.integers(0, 12))
    if kind.startswith("int"):
        x = draw(st.lists(st.one_of(st.integers(-60, 210), st.sampled_from([int(b) for b in bins] + [int(b) + 1 for b in bins])), min_size=n, max_size=n))
    else:
        near = [float(b) for b in bins] + [float(b) + 0.02 for b in bins] + [float(b) - 0.03 for b in bins]
        x = draw(st.lists(st.one_of(st.none(), st.integers(-480, 1680).map(lambda k: k / 8), st.sampled_from(near)), min_size=n, max_size=n))
    return {"kind": kind, "bins": bins, "x": x, "container": draw(st.sampled_from(["np", "series"]))}


def parse_label(lab):
    lab = str(lab)
    if lab.startswith(" <= "):
        return ("le", float(lab[4:]))
    if lab.startswith(" > "):
        return ("gt", float(lab[3:]))
    # "l - r" (mind negative numbers) or a single number
    for k in range(1, len(lab)):
        if lab[k:k + 3] == " - ":
            try:
                return ("range", float(lab[:k]), float(lab[k + 3:]))
            except ValueError:
                continue
    return ("single", float(lab))


def cut_check(case, ctx):
    kind, bins, x = case["kind"], case["bins"], case["x"]
    xi = kind.startswith("int")
    arr = np.array(x, dtype=np.int64) if xi else np.array([np.nan if v is None else v for v in x], dtype=float)
    obj = pd.Series(arr, name="x") if case["container"] == "series" else arr
    ctx.seen("pretty_cut", case, any(v is not None and float(v) in [float(b) for b in bins] for v in x), [f"cut:{kind}", f"cut:nbins:{len(bins)}"])
    out = pretty_cut(obj, bins)
    cat = out.array if isinstance(out, pd.Series) else out
    if len(cat) != len(x):
        raise Violation("cut:length", f"{len(cat)} for {len(x)} values")
    both_int = kind == "int_int"
    for i, v in enumerate(x):
        lab = cat[i]
        if v is None:
            if not pd.isna(lab):
                raise Violation("cut:null", f"null value got bin {lab!r}")
            continue
        if pd.isna(lab):
            raise Violation("cut:unbinned", f"value {v} got no bin (bins {bins})")
        p = parse_label(lab)
        v = float(v)
        if p[0] == "le":
            ok = v <= p[1]
        elif p[0] == "gt":
            ok = v > p[1]
        elif p[0] == "single":
            ok = v == p[1]
        else:
            ok = (p[1] <= v <= p[2]) if both_int else (p[1] < v <= p[2])
        if not ok:
            raise Violation(f"cut:outside-printed-bounds:{kind}", f"value {v} assigned to bin {lab!r} (bins {bins})")


SUBS = [
    Sub("nanops", nan_check, strategy=lambda tier, v: nan_case(v), variants=("-",), examples=(12000, 240000), replicas=(6, 12), cost={"-": 300}),
    Sub("nanops_boundscheck", nan_check, strategy=lambda tier, v: nan_case(v), variants=("-",), examples=(2000, 40000), replicas=(1, 2),
        cost={"-": 120}, env={"NUMBA_BOUNDSCHECK": "1", "NUMBA_CACHE_DIR_SUFFIX": "bc"}),
    Sub("nanops2d", nan2d_check, strategy=lambda tier, v: nan2d_case(v), variants=("-",), examples=(1500, 30000), replicas=(1, 2), cost={"-": 80}),
    Sub("nb_dot", dot_check, strategy=lambda tier, v: dot_case(v), variants=("-",), examples=(2000, 40000), replicas=(1, 2), cost={"-": 60}),
    Sub("bools_enum", bools_enum_check, enumerate=bools_enum, variants=("-",), replicas=(4, 8), cost={"-": 200}),
    Sub("bools", bools_check, strategy=lambda tier, v: bools_case(v), variants=("-",), examples=(2000, 40000), replicas=(1, 2), cost={"-": 60}),
    Sub("pretty_cut", cut_check, strategy=lambda tier, v: cut_case(v), variants=("-",), examples=(6000, 120000), replicas=(2, 4), cost={"-": 120}),
]
