"""C06 Rows with a null key never influence any group (metamorphic: delete / re-draw null-key rows)."""
import copy

import numpy as np
from hypothesis import strategies as st

from .. import data, gbops, model, ops
from .. import strategies as S
from ..core import Sub, Violation
from .c05 import compare_reduction_results, exec_case, row_values, rows_by_label

RULE = (
    "Hypothesis generates tables (n <= 30) with 1-3 keys whose nulls sit at any subset of rows and in any key "
    "position (first / middle / last key forced with equal weight), one value column, an optional boolean mask and "
    "a key layout (contiguous or chunk-wise factorized with per-chunk dictionaries) and one operation out of: reductions, transform variants, cumulative, rolling, shift/diff, EMA (row and time "
    "weighted), head/tail/nth, groups, group_nearby_members.  Three relations: delete the null-key rows; re-draw "
    "the values of the null-key rows; re-draw the values of all OTHER rows and observe the null-key rows' marker.  "
    "Non-trivial = at least one null-key row lies strictly between two rows of a live group.  Distinct = case hash."
)
ORACLE = ("metamorphic, both directions of information flow: results for groups/surviving rows identical after deleting "
          "null-key rows and after re-drawing their values; no label created; null-key rows of a row-aligned output all "
          "carry one marker that does not change when every other row is re-drawn")
ASSUMPTIONS = [
    "temporal values are kept small enough that int64 group sums cannot overflow (see C01 known finding)",
]

EXTRA_OPS = ("groups", "nearby", "ema_timed")
VARIANTS = {"f": ("float64", "float32"), "i": ("int64", "int16", "bool"), "t": ("M8[ns]", "m8[ns]")}


@st.composite
def case_strategy(draw, variant):
    n = draw(st.sampled_from([2, 3, 4, 5, 6, 8, 10, 12, 16, 20, 30]))
    layout = draw(st.sampled_from(["contiguous", "contiguous", "chunkwise"]))
    nk = draw(st.integers(1, 3)) if layout == "contiguous" else 1
    if layout == "chunkwise":
        n = max(n, 4)
    keys = []
    null_pos = draw(st.integers(0, nk - 1))
    for i in range(nk):
        if layout == "chunkwise":
            k = draw(S.key_column(n, types=("float", "dt"), max_labels=4, shape=draw(st.sampled_from(["random", "blocks", "sorted_prefix"]))))
        else:
            k = draw(S.key_column(n, types=("float", "str", "dt", "cat") if i == null_pos else ("int", "float", "str", "bool", "dt", "cat"),
                                  max_labels=4, allow_null=(i == null_pos) or draw(st.booleans())))
        if i == null_pos and all(v is not None for v in k["vals"]):
            # force at least one null in the designated key position
            idx = draw(st.lists(st.integers(0, n - 1), min_size=1, max_size=max(1, n // 3)))
            k["vals"] = [None if j in idx else v for j, v in enumerate(k["vals"])]
        keys.append(k)
    vspec = draw(S.value_column(n, dtypes=VARIANTS[variant], regime="exact"))
    if vspec["dtype"].endswith("[ns]"):
        vspec["vals"] = [None if x is None else x % (2 * 10**17) for x in vspec["vals"]]
    vkind = data.val_kind(vspec)
    mk = draw(st.sampled_from(["none", "none", "bool"]))
    names = ops.ops_for_kind(vkind, kinds=("red", "row", "sel"), mask_kind=mk)
    if vkind in "fi":
        names = names + ["ema_timed", "nearby"]
    names = names + ["groups"]
    op = draw(st.sampled_from(names))
    kw = {}
    if op in ops.OPS and ops.OPS[op].kw:
        kw = ops.OPS[op].kw(draw, n)
    if op == "ema_timed":
        steps = draw(st.lists(st.integers(0, 5), min_size=n, max_size=n))
        t, times = 10**9, []
        for s in steps:
            t += s * 10**9
            times.append(t)
        kw = {"times": times, "halflife": draw(st.sampled_from(["2s", "500ms", "7s"]))}
    if op == "nearby":
        kw = {"max_diff": draw(st.sampled_from([0.5, 1.0, 3.0]))}
        vspec = {"dtype": "float64", "name": None, "vals": sorted(v if v is not None else 0.0 for v in draw(
            st.lists(st.integers(0, 40).map(lambda k: k / 2), min_size=n, max_size=n)))}
    mask = draw(S.mask_spec(n, kinds=("bool",))) if mk == "bool" and op not in ("groups", "nearby", "head", "tail", "nth") else None
    alt = draw(S.value_column(n, dtypes=(vspec["dtype"],), regime="exact"))["vals"]
    if vspec["dtype"].endswith("[ns]"):
        alt = [None if x is None else x % (2 * 10**17) for x in alt]
    if op == "nearby":
        alt = vspec["vals"]
    return {"n": n, "warm": draw(S.warm()), "keys": keys, "vals": [vspec], "mask": mask, "op": op, "kw": kw, "alt_vals": alt, "layout": layout,
            "threshold": draw(st.integers(1, n)), "key_chunks": draw(st.integers(1, 5)),
            "sort": draw(st.sampled_from([True, True, False])), "null_pos": null_pos}


def run(case):
    """-> ('red'|'row'|'sel'|'groups', normalised result)"""
    op = case["op"]
    if op in ops.OPS:
        return ops.OPS[op].kind, ops.normalise(exec_case(case))
    keys, vals, mask, index = gbops.render(case)
    if case.get("layout") == "chunkwise":
        with gbops.Shims(threshold=case["threshold"], key_chunks=case["key_chunks"]):
            gb = gbops.build(case, keys)
            gb.result_index  # constructed under the scaled-down threshold
    else:
        gb = gbops.build(case, keys)
    if op == "groups":
        g = gb.groups
        out = {}
        for k, v in g.items():
            kk = data.norm_scalar(k)
            out[kk if isinstance(kk, tuple) else (kk,)] = [int(x) for x in v]
        return "groups", out
    if op == "nearby":
        r = gb.group_nearby_members(vals[0], max_diff=case["kw"]["max_diff"])
        return "row", ops.normalise(np.asarray(r))
    if op == "ema_timed":
        times = np.array(case["kw"]["times"], dtype="int64").view("M8[ns]")
        return "row", ops.normalise(gb.ema(vals[0], halflife=case["kw"]["halflife"], times=times, mask=mask))
    raise ValueError(op)


def filtered(case, positions):
    c = copy.deepcopy(case)
    c["n"] = len(positions)
    for k in c["keys"]:
        k["vals"] = [k["vals"][p] for p in positions]
    for v in c["vals"]:
        v["vals"] = [v["vals"][p] for p in positions]
    if c.get("mask"):
        c["mask"]["vals"] = [c["mask"]["vals"][p] for p in positions]
    for k in ops.ROW_KW:
        if k in c.get("kw", {}):
            c["kw"][k] = [c["kw"][k][p] for p in positions]
    c["layout"] = "contiguous"
    return c


def sel_rows(norm):
    """head/tail/nth(keep_input_index=True) result -> multiset of (row label, value)"""
    idx, rows = rows_by_label_allow_dup(norm)
    return sorted(zip(idx, rows), key=repr)


def rows_by_label_allow_dup(norm):
    if norm["type"] == "pd.Series":
        return norm["index"], [(v,) for v in norm["values"]]
    if norm["type"] == "pd.DataFrame":
        return norm["index"], [tuple(col[i] for col in norm["data"]) for i in range(len(norm["index"]))]
    raise Violation("shape", f"unexpected selection result {norm['type']}")


def check(case, ctx):
    n = case["n"]
    labels = gbops.labels_of(case)
    null_rows = [i for i, l in enumerate(labels) if l is None]
    keep = [i for i, l in enumerate(labels) if l is not None]
    op = case["op"]
    tol = 1e-9 if (op in ops.OPS and ops.OPS[op].float_tol) or op == "ema_timed" else 0.0
    # non-triviality: a null-key row strictly between two rows of one live group
    between = False
    first, last = {}, {}
    for i in keep:
        first.setdefault(labels[i], i)
        last[labels[i]] = i
    for r in null_rows:
        if any(first[l] < r < last[l] for l in first):
            between = True
            break
    ctx.seen("nullkey", case, bool(null_rows) and between,
             [f"op:{op}", f"nkeys:{len(case['keys'])}", f"nullpos:{case['null_pos']}of{len(case['keys'])}",
              f"has_null_rows:{bool(null_rows)}", f"between:{between}", f"layout:{case.get('layout')}", "mask:" + ("bool" if case["mask"] else "none")])
    kind, res = run(case)
    # ---- relation 1: delete the null-key rows
    if keep:
        kind_d, res_d = run(filtered(case, keep))
        if kind == "red":
            compare_reduction_results(res, res_d, tol, f"delete:{op}", ordered=True)
        elif kind == "row":
            v, vd = row_values(res, n), row_values(res_d, len(keep))
            for j, p in enumerate(keep):
                if not ops.same_values([v[p]], [vd[j]], tol):
                    raise Violation(f"delete:{op}:row", f"row {p} (row {j} after deleting null-key rows): {v[p]} vs {vd[j]}")
        elif kind == "sel":
            a = sel_rows(res)
            b = sorted(((keep[i[0]],), r) for i, r in zip(*rows_by_label_allow_dup(res_d)))
            b = sorted(b, key=repr)
            if [x[0] for x in a] != [x[0] for x in b] or not all(ops.same_values(list(x[1]), list(y[1]), 0.0) for x, y in zip(a, b)):
                raise Violation(f"delete:{op}:rows", f"{a} vs {b} (after mapping positions back)")
        elif kind == "groups":
            mapped = {k: [keep[j] for j in v] for k, v in res_d.items()}
            if mapped != res:
                raise Violation("delete:groups", f"{res} vs {mapped}")
    elif kind == "red":
        labs, _ = rows_by_label(res)
        if labs:
            raise Violation(f"labels-from-null-keys:{op}", f"all keys are null but labels {labs} were reported")
    elif kind == "groups" and res:
        raise Violation("labels-from-null-keys:groups", f"{res}")
    if kind in ("red", "groups"):
        got_labels = set(rows_by_label(res)[0]) if kind == "red" else set(res)
        for lab in got_labels:
            if any(x is None for x in lab):
                raise Violation(f"null-label:{op}", f"label {lab} contains a null component")
    if kind == "sel":
        for (p,), _ in sel_rows(res):
            if p in null_rows:
                raise Violation(f"null-key-row-selected:{op}", f"row {p} has a null key but was selected")
    if not null_rows:
        return
    # ---- relation 2: re-draw the values of the null-key rows -> nothing else changes
    c2 = copy.deepcopy(case)
    nr = set(null_rows)
    c2["vals"][0]["vals"] = [case["alt_vals"][i] if i in nr else v for i, v in enumerate(case["vals"][0]["vals"])]
    kind2, res2 = run(c2)
    if kind == "red":
        compare_reduction_results(res, res2, tol, f"redraw-null-rows:{op}", ordered=True)
    elif kind == "row":
        v, v2 = row_values(res, n), row_values(res2, n)
        for p in keep:
            if not ops.same_values([v[p]], [v2[p]], tol):
                raise Violation(f"redraw-null-rows:{op}:row", f"row {p} changed from {v[p]} to {v2[p]} when values of null-key rows {null_rows} were re-drawn")
    elif kind == "sel":
        if [x[0] for x in sel_rows(res)] != [x[0] for x in sel_rows(res2)]:
            raise Violation(f"redraw-null-rows:{op}:rows", f"{sel_rows(res)} vs {sel_rows(res2)}")
    # ---- relation 3: marker of null-key rows is constant and independent of all other rows
    if kind == "row":
        v = row_values(res, n)
        markers = [v[p] for p in null_rows]
        if any(not ops.same_values([m], [markers[0]], 0.0) for m in markers):
            raise Violation(f"marker-not-constant:{op}", f"null-key rows {null_rows} carry {markers}")
        c3 = copy.deepcopy(case)
        c3["vals"][0]["vals"] = [v_ if i in nr else case["alt_vals"][i] for i, v_ in enumerate(case["vals"][0]["vals"])]
        _, res3 = run(c3)
        v3 = row_values(res3, n)
        for p in null_rows:
            if not ops.same_values([v[p]], [v3[p]], 0.0):
                raise Violation(f"marker-depends-on-other-rows:{op}", f"null-key row {p}: {v[p]} -> {v3[p]} after re-drawing all other rows")


SUBS = [
    Sub("nullkey", check, strategy=lambda tier, v: case_strategy(v), variants=tuple(VARIANTS), examples=(6000, 120000),
        replicas=(5, 10), cost={v: 400 for v in VARIANTS}),
]
