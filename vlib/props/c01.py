"""C01 Group reductions equal the per-group definition (public GroupBy API vs reference model)."""
from hypothesis import strategies as st

from .. import data, gbops, model
from .. import strategies as S
from ..core import Sub, Violation

RULE = (
    "Hypothesis generates a logical table (n <= 40 rows, 1-3 keys of type int/float/str/bool/datetime/categorical "
    "with random first-appearance order and nulls in any key position, one value column of any numeric/bool/"
    "temporal dtype with nulls, a mask of kind none/bool/slice/positions, one of the 8 reductions, sort on/off, "
    "numpy/pandas/list rendering with default/shuffled/string index).  Forced shapes: a group whose values are "
    "all null, block-confined groups, sorted prefix, single group, all keys null, all-false mask.  A case is "
    "non-trivial when it has >= 2 groups and at least one of: an all-null group, first-appearance order that is "
    "not ascending, a mask that empties a group, a null key.  A quarter of the cases take the routes of large inputs with the "
    "switch-over threshold scaled down (chunk-wise factorization, sorted and sorted-prefix fast paths; float/datetime keys with "
    "nulls), and a third of the masked cases are the second or third masked call on one grouping object (one mask buffer "
    "refilled in place).  A `realscale` sub-check adds 1M-2M row inputs on keys that "
    "stay contiguous (categorical, two keys, sorted) and on float keys with NaN runs (sorted, sorted prefix, unsorted: the real monotonic / partially monotonic / chunk-wise routes) with a group confined to the tail / to blocks, against a NumPy "
    "reference (groups of any size: the library switches to several threads there).  Distinct = distinct case hash."
)
ORACLE = ("independent pure-Python model: group selected rows by key tuple, reduce non-null values with exact "
          "arithmetic; label set compared in both directions; values exact (selections, counts, integer/temporal "
          "sums) or within 4(n+1)eps*sum|x| (floating sums/means)")
ASSUMPTIONS = [
    "integer value columns never contain the dtype's extreme that the library documents as its integer null marker",
    "sum of datetime64 values is not checked (not meaningful; pandas rejects it); timedelta sums are",
    "temporal means may differ from the exact quotient by less than one time unit (integer division) plus "
    "float64 rounding of the quotient (2 eps |mean|): the library divides in float64 when a group has count 0",
]

VARIANTS = {
    "f": ("float64", "float32"),
    "i": ("int64", "int32", "int16", "int8"),
    "u": ("uint8", "uint16", "uint32", "uint64", "bool"),
    "t": ("M8[ns]", "M8[s]", "m8[ns]", "tz:US/Eastern:ns"),
}


def ops_for(dtype):
    ops = list(gbops.REDUCTIONS8)
    if dtype.startswith(("M8", "tz:")):
        ops.remove("sum")
    return ops


@st.composite
def case_strategy(draw, variant, ops=None, mask_kinds=("none", "none", "bool", "bool", "slice", "pos")):
    n = draw(st.sampled_from([0, 1, 2, 3, 4, 5, 6, 8, 10, 12, 16, 20, 30, 40]))
    layout = draw(st.sampled_from(["contiguous", "contiguous", "contiguous", "chunkwise"]))
    if layout == "chunkwise":
        # the routes large inputs take (chunk-wise factorization, sorted / sorted-prefix fast path), threshold scaled down
        n = max(n, 4)
        keys = [draw(S.key_column(n, types=("int", "float", "dt"), shape=draw(st.sampled_from(["random", "blocks", "sorted", "sorted_prefix"]))))]
    else:
        keys = draw(S.keys(n))
    regime = draw(st.sampled_from(["exact", "exact", "wild"]))
    vspec = draw(S.value_column(n, dtypes=VARIANTS[variant], regime=regime))
    nullable = vspec["dtype"].startswith(("float", "M8", "m8", "tz:"))
    labels = model.key_tuples([data.key_py(k) for k in keys], n)
    live = sorted({l for l in labels if l is not None}, key=repr)
    if nullable and live and draw(st.sampled_from([True, False, False])):
        victim = draw(st.sampled_from(live))
        vspec["vals"] = [None if labels[i] == victim else v for i, v in enumerate(vspec["vals"])]
    mask = draw(S.mask_spec(n, kinds=mask_kinds, steps=layout == "contiguous"))
    op = draw(st.sampled_from(ops or ops_for(vspec["dtype"])))
    # earlier masked calls on the same grouping object, with masks of the examined mask's kind (boolean masks and
    # position arrays of equal length go through ONE buffer that is refilled in place between the calls)
    prior = []
    if mask is not None and draw(st.sampled_from([False, False, True])):
        for _ in range(draw(st.integers(1, 2))):
            if mask["kind"] == "pos" and n:
                prior.append({"kind": "pos", "vals": draw(st.lists(st.integers(0, n - 1), min_size=len(mask["vals"]), max_size=len(mask["vals"])))})
            else:
                prior.append(draw(S.mask_spec(n, kinds=(mask["kind"],), steps=layout == "contiguous")))
    render = {
        "kc": draw(st.sampled_from(["np", "np", "series", "list"])) if n > 0 else "np",
        "vc": draw(st.sampled_from(["np", "series"])),
        "index": draw(st.sampled_from(["default", "default", "shuffled", "str", "dup"])),
        "mc": draw(st.sampled_from(["np", "series"])),
    }
    return {"n": n, "keys": keys, "vals": [vspec], "mask": mask, "op": op, "render": render, "layout": layout, "prior": prior,
            "threshold": draw(st.integers(1, max(n, 1))), "key_chunks": draw(st.integers(1, 5)),
            "sort": draw(st.sampled_from([True, True, False]))}


def nontrivial_flags(case, labels, groups_all, groups_sel):
    vals = data.val_py(case["vals"][0])
    flags = []
    if any(all(vals[p] is None for p in ps) for ps in groups_sel.values()):
        flags.append("all_null_group")
    order = list(groups_all)
    sk = gbops.label_sort_key(case)
    try:
        if order != sorted(order, key=sk):
            flags.append("unsorted_first_appearance")
    except TypeError:
        pass
    if any(l not in groups_sel for l in groups_all):
        flags.append("mask_empties_group")
    if any(l is None for l in labels):
        flags.append("null_key")
    return flags


def check(case, ctx, sub="reduce"):
    op = case["op"]
    vspec = case["vals"][0]
    keys, vals, mask, index = gbops.render(case)
    chunkwise = case.get("layout") == "chunkwise"
    with (gbops.Shims(threshold=case["threshold"], key_chunks=case["key_chunks"]) if chunkwise else gbops.Shims()):
        gb = gbops.build(case, keys)
        observed_chunked = bool(getattr(gb, "key_is_chunked", False))
        prior = case.get("prior") or []
        if prior:
            import numpy as np

            shared = isinstance(mask, np.ndarray) and all(len(p.get("vals", ())) == len(mask) for p in prior)
            buf = np.empty_like(mask) if shared else None
            for p in prior:
                pm = data.render_mask(p, case["n"], "np", index)
                if shared:
                    buf[:] = pm
                    pm = buf
                gbops.call(gb, op, vals[0], pm)
            if shared:
                buf[:] = mask
                mask = buf
        res = gbops.call(gb, op, vals[0], mask)
    labels, pos, groups = gbops.model_groups(case)
    _, _, groups_all = gbops.model_groups(case, mask=None)
    flags = nontrivial_flags(case, labels, groups_all, groups)
    nt = len(groups_all) >= 2 and bool(flags)
    classes = [f"op:{op}", f"dtype:{vspec['dtype']}", "mask:" + (case["mask"]["kind"] if case["mask"] else "none"),
               f"nkeys:{len(case['keys'])}", f"layout:{case.get('layout', 'contiguous')}", f"observed_chunked:{observed_chunked}",
               f"prior_calls:{len(prior)}"] + [f"flag:{f}" for f in flags] + [f"keytype:{k['t']}" for k in case["keys"]]
    if "all_null_group" in flags and "unsorted_first_appearance" in flags and case["mask"] is None:
        classes.append("forced:allnull+unsorted+nomask")
    ctx.seen(sub, case, nt, classes)
    gbops.compare_reduction(case, op, vspec, res, groups, what=f"{op}")
    if res.index.nlevels != len(case["keys"]):
        raise Violation("index:nlevels", f"{res.index.nlevels} levels for {len(case['keys'])} keys")


# ---- groups of any size: a few real-scale cases on keys that stay contiguous (categorical / several keys / sorted),
# where the library switches to several threads from 1,000,000 rows -----------------------------------------------
@st.composite
def big_case(draw, variant):
    return {"n": draw(st.sampled_from([999_999, 1_000_000, 1_000_001, 2_000_003])),
            "keykind": draw(st.sampled_from(["categorical", "two_keys", "sorted", "float_sorted_nan", "float_prefix_nan", "float_unsorted_nan"])),
            "structure": draw(st.sampled_from(["tail_group", "blocks", "uniform"])),
            "op": draw(st.sampled_from(["sum", "mean", "min", "max", "first", "last", "count", "size"])),
            "vkind": draw(st.sampled_from(["float_nan", "int", "bool", "uint8"])),
            "mask": draw(st.sampled_from(["none", "none", "bool3", "slice_tail"])), "salt": draw(st.integers(0, 3))}


def big_check(case, ctx):
    import numpy as np
    import pandas as pd

    from groupby_lib import GroupBy

    n, g = case["n"], 5
    i = np.arange(n, dtype=np.int64)
    if case["structure"] == "tail_group":
        k = (i * (7 + case["salt"])) % (g - 1)
        k[-max(10, n // 100):] = g - 1
    elif case["structure"] == "blocks":
        k = np.sort((i * 13) % g)[::-1].copy()
    else:
        k = (i * (2654435761 + case["salt"])) % 1000003 % g
    if case["keykind"] in ("sorted", "float_sorted_nan"):
        k = np.sort(k)
    elif case["keykind"] == "float_prefix_nan":
        k[: n // 2 + case["salt"]] = np.sort(k[: n // 2 + case["salt"]])
    nullkey = np.zeros(n, bool)
    if case["keykind"].startswith("float_"):
        # NaN keys: a run inside the rows (between two labels and inside a label) and a run at the very end
        nullkey[n // 3: n // 3 + 7 + case["salt"]] = True
        nullkey[n - 10 - case["salt"]:] = True
        nullkey[(i % 100_003) == 5] = True
    if case["vkind"] == "float_nan":
        v = (((i * 17 + case["salt"]) % 4097) - 2048).astype(float) / 8.0
        v[(i % 7) == 2] = np.nan
        v[:n // 2][k[:n // 2] == k[0]] = np.nan
    elif case["vkind"] == "int":
        v = ((i * 31) % 2001 - 1000).astype(np.int64)
    elif case["vkind"] == "bool":
        v = ((i * 7) % 3 == 0)
        v[k == k[-1]] = True
    else:
        v = ((i * 5) % 200 + 1).astype(np.uint8)
    mask = None if case["mask"] == "none" else ((i % 3) != 1 if case["mask"] == "bool3" else slice(n - n // 50, None))
    labels = np.array(["e", "d", "c", "b", "a"])
    if case["keykind"] == "categorical":
        keys = pd.Categorical.from_codes(k.astype("int8"), categories=list(labels))
        lab_of = lambda c: (labels[c],)
    elif case["keykind"] == "two_keys":
        keys = [k // 2, k % 2]
        lab_of = lambda c: (int(c // 2), int(c % 2))
    elif case["keykind"].startswith("float_"):
        keys = k.astype("float64") * 0.5
        keys[nullkey] = np.nan
        lab_of = lambda c: (float(c) * 0.5,)
    else:
        keys = k
        lab_of = lambda c: (int(c),)
    gb = GroupBy(keys)
    res = gbops.call(gb, case["op"], v, mask)
    ctx.seen("realscale", case, case["structure"] != "uniform", [f"big:n:{n}", f"big:key:{case['keykind']}", f"big:op:{case['op']}", f"big:v:{case['vkind']}"])
    sel = np.ones(n, bool) if mask is None else (mask if isinstance(mask, np.ndarray) else None)
    if sel is None:
        sel = np.zeros(n, bool)
        sel[mask] = True
    got = dict(zip(data.index_labels(res.index), data.series_values(res)))
    exp = {}
    vf = v.astype(float)
    for c in range(g):
        rows = np.nonzero(sel & (k == c) & ~nullkey)[0]
        if not len(rows):
            continue
        x = vf[rows]
        nn = x[~np.isnan(x)]
        op = case["op"]
        if op == "size":
            e = float(len(rows))
        elif op == "count":
            e = float(len(nn))
        elif op == "sum":
            e = float(nn.sum())
        elif op == "mean":
            e = float(nn.mean()) if len(nn) else None
        elif op in ("min", "max"):
            e = (float(nn.min()) if op == "min" else float(nn.max())) if len(nn) else None
        else:
            e = (float(nn[0]) if op == "first" else float(nn[-1])) if len(nn) else None
        exp[lab_of(c)] = e
    if set(exp) != set(got):
        raise Violation(f"big:labels:{case['op']}", f"{sorted(exp, key=repr)} vs {sorted(got, key=repr)}")
    for lab, e in exp.items():
        g_ = got[lab]
        g_ = None if g_ is None else float(g_)
        if case["vkind"] in ("bool",) and e is None:
            continue
        ok = (e is None and g_ is None) or (e is not None and g_ is not None and abs(e - g_) <= 1e-9 * max(1.0, abs(e)))
        if not ok:
            raise Violation(f"big:value:{case['op']}", f"label {lab}: numpy {e!r} library {g_!r} ({case})")


SUBS = [
    Sub("realscale", big_check, strategy=lambda tier, variant: big_case(variant), variants=("-",), examples=(32, 400), replicas=(2, 8),
        cost={"-": 120}),
    Sub("reduce", check, strategy=lambda tier, variant: case_strategy(variant), variants=tuple(VARIANTS),
        examples=(6000, 120000), replicas=(4, 16), cost={v: 200 for v in VARIANTS}),
]
