"""C02 Factorization is a faithful partition of the rows (validity predicate, every route)."""
import itertools

import numpy as np
import pandas as pd
import polars as pl
import pyarrow as pa
from hypothesis import strategies as st

from groupby_lib import GroupBy
from groupby_lib.groupby import factorization as F

from .. import data, gbops, model, rejections
from .. import strategies as S
from ..core import Rejected, Sub, Violation

RULE = (
    "Hypothesis generates key columns (n <= 40, 1-3 keys, types int/float/str/bool/datetime/categorical, nulls in "
    "any key position, first-appearance order random / sorted / block-confined / sorted-prefix) and a route: plain, "
    "categorical, Arrow dictionary arrays (incl. chunked with per-chunk dictionaries), boolean, RangeIndex(start, step), Arrow (pa.Array, pa.ChunkedArray with arbitrary incl. empty "
    "chunks, Arrow-backed pandas, polars), fully monotonic, partially monotonic (sorted prefix > n/4) and chunk-wise "
    "(threshold scaled down from the harness, 1-6 chunks), sort on/off, optionally after an earlier masked/unmasked reduction on the same object; plus the module functions factorize_1d, "
    "factorize_2d (array and dict tracker) and monotonic_factorization.  All 2-key tables with n <= 5 (quick: 4) "
    "over {a,b,null} x {x,y,null} are enumerated for factorize_2d with both trackers, and all float key sequences over "
    "{2,1,3,NaN} of length <= 5 (quick) / 7 on the chunk-wise and monotonic routes (threshold 1, 1-3 chunks, sort on/off).  Non-trivial = >= 2 distinct "
    "labels and (a null somewhere, or a non-plain route, or several keys).  Distinct = case hash (sampled) or by "
    "construction (enumerated)."
)
ORACLE = ("validity predicate (many codings are correct): label[code]==key per component; code==-1 iff a component is "
          "null; labels pairwise distinct; equal keys <=> equal codes; groups = ascending positions partitioning the "
          "non-null rows; key_count/size agree and sum to the number of non-null rows; ngroups==len(result_index)")
ASSUMPTIONS = [
    "label ORDER is not part of this property (C11 checks it); only the partition is",
    "pre-chunked Arrow key columns have at least one row",
    "chunk-local codes are resolved through the pointer tables on the harness side (reads internal attributes "
    "_group_ikey/_group_key_pointers when present; the public views groups/key_count/size are always checked)",
    "raw Arrow containers that the library rejects by type are counted under rejected_input_classes",
]


def norm_lab(x):
    return data.norm_scalar(x)


def labels_from_index(idx):
    return data.index_labels(idx)


def check_partition(key_rows, codes, labels, what, allow_unused=True):
    """key_rows: per-row label tuple or None; codes: per-row ints; labels: list of label tuples."""
    n = len(key_rows)
    if len(codes) != n:
        raise Violation(f"{what}:length", f"{len(codes)} codes for {n} rows")
    if len(set(labels)) != len(labels):
        raise Violation(f"{what}:duplicate-labels", f"{labels}")
    for i, (k, c) in enumerate(zip(key_rows, codes)):
        c = int(c)
        if k is None:
            if c != -1:
                raise Violation(f"{what}:null-key-coded", f"row {i} has a null key component but code {c} (label {labels[c] if 0 <= c < len(labels) else '?'})")
            continue
        if c < 0 or c >= len(labels):
            raise Violation(f"{what}:code-range", f"row {i} key {k} has code {c} with {len(labels)} labels")
        if labels[c] != k:
            raise Violation(f"{what}:wrong-label", f"row {i} key {k!r} coded {c} whose label is {labels[c]!r}")
    if not allow_unused:
        used = {int(c) for c in codes if c >= 0}
        if used != set(range(len(labels))):
            raise Violation(f"{what}:unused-label", f"labels {labels} used codes {sorted(used)}")


def logical_codes(gb):
    """Per-row logical codes without triggering the lazy re-layout (works on copies)."""
    ik = gb.group_ikey
    if isinstance(ik, pa.ChunkedArray):
        ptrs = getattr(gb, "_group_key_pointers", None)
        out = []
        for j, ch in enumerate(ik.chunks):
            local = np.asarray(ch.to_numpy(zero_copy_only=False)).astype("int64")
            if ptrs is not None:
                p = np.asarray(ptrs[j])
                glob = np.where(local < 0, -1, p[np.where(local < 0, 0, local)] if len(p) else -1)
            else:
                glob = local
            out.append(np.asarray(glob, dtype="int64"))
        return np.concatenate(out) if out else np.array([], dtype="int64")
    return np.asarray(ik).astype("int64")


# ---------------------------------------------------------------------------
ROUTES = ("plain", "series", "cat", "range", "arrow", "mono", "partial", "chunkwise", "prechunked", "multi")


@st.composite
def gb_case(draw, variant):
    route = draw(st.sampled_from({
        "a": ["plain", "series", "cat", "multi", "range"],
        "b": ["mono", "partial", "chunkwise"],
        "c": ["arrow", "prechunked", "arrowdict"],
    }[variant]))
    n = draw(st.sampled_from([0, 1, 2, 3, 4, 5, 6, 8, 10, 13, 16, 24, 40]))
    if route == "prechunked":
        n = max(n, 1)  # an Arrow ChunkedArray without rows is not considered a key column
    case = {"route": route, "n": n, "sort": draw(st.sampled_from([True, True, False])),
            "prior": draw(st.sampled_from(["none", "none", "masked_sum", "masked_size", "sum"])),
            "prior_mask": draw(st.lists(st.booleans(), min_size=40, max_size=40))}
    if route == "range":
        case["range"] = {"start": draw(st.integers(-5, 5)), "step": draw(st.sampled_from([1, 1, 2, 3, -1, -2])), "n": n}
        return case
    if route == "multi":
        case["keys"] = draw(S.keys(n, nkeys=(2, 3)))
        case["kc"] = draw(st.sampled_from(["np", "series"]))
        case["use_dict"] = draw(st.booleans())
        return case
    if route == "cat":
        case["keys"] = [draw(S.key_column(n, types=("cat",)))]
        case["kc"] = draw(st.sampled_from(["cat", "series"]))
        return case
    if route in ("plain", "series"):
        case["keys"] = [draw(S.key_column(n, types=("int", "float", "str", "bool", "dt")))]
        case["kc"] = "np" if route == "plain" else draw(st.sampled_from(["series", "index", "series_str", "list"]))
        if case["kc"] == "series_str" and case["keys"][0]["t"] != "str":
            case["kc"] = "series"
        if case["kc"] == "list" and n == 0:
            case["kc"] = "np"
        return case
    if route in ("mono", "partial", "chunkwise"):
        n = max(n, 4)
        case["n"] = n
        shape = {"mono": "sorted", "partial": "sorted_prefix", "chunkwise": "random"}[route]
        case["keys"] = [draw(S.key_column(n, types=("int", "float", "str", "dt"), shape=shape))]
        case["kc"] = draw(st.sampled_from(["np", "series"]))
        case["threshold"] = draw(st.integers(1, n))
        case["key_chunks"] = draw(st.integers(1, 6))
        return case
    if route == "arrowdict":
        n = max(n, 1)
        case["n"] = n
        case["keys"] = [draw(S.key_column(n, types=("int", "str", "float")))]
        case["kc"] = draw(st.sampled_from(["pa_dict", "pa_dict_chunked", "pd_arrow_dict_chunked"]))
        k = draw(st.integers(1, 4))
        cuts = sorted(draw(st.lists(st.integers(0, n), min_size=k - 1, max_size=k - 1)))
        b = [0] + cuts + [n]
        case["keys"][0]["chunks"] = [y - x for x, y in zip(b[:-1], b[1:])]
        return case
    if route in ("arrow", "prechunked"):
        case["keys"] = [draw(S.key_column(n, types=("int", "float", "str", "dt")))]
        if route == "arrow":
            case["kc"] = draw(st.sampled_from(["pa", "pl", "pd_arrow"]))
        else:
            case["kc"] = draw(st.sampled_from(["pa_chunked", "pd_arrow_chunked", "pl"]))
            k = draw(st.integers(1, 5))
            cuts = sorted(draw(st.lists(st.integers(0, n), min_size=k - 1, max_size=k - 1)))
            b = [0] + cuts + [n]
            case["keys"][0]["chunks"] = [y - x for x, y in zip(b[:-1], b[1:])]
        return case
    raise ValueError(route)


def render_keys(case):
    if case["route"] == "range":
        r = case["range"]
        return pd.RangeIndex(r["start"], r["start"] + r["step"] * r["n"], r["step"])
    kc = case.get("kc", "np")
    objs = [data.render_key(k, kc if k["t"] != "cat" or kc in ("cat", "series") else "np") for k in case["keys"]]
    return objs[0] if len(objs) == 1 else objs


def key_rows_of(case):
    if case["route"] == "range":
        r = case["range"]
        return [(r["start"] + r["step"] * i,) for i in range(r["n"])]
    cols = [data.key_py(k) for k in case["keys"]]
    return model.key_tuples(cols, case["n"])


REJECT_TABLE = {
    # (container, condition) -> exception types tolerated: rejected by type alone, loudly
    "pa_chunked:str": (pa.ArrowInvalid, NotImplementedError, TypeError),
}


def gb_check(case, ctx):
    route = case["route"]
    rows = key_rows_of(case)
    keys = render_keys(case)
    shim = gbops.Shims(threshold=case.get("threshold"), key_chunks=case.get("key_chunks"))
    rej = rejections.key_rows(case.get("kc"), case["keys"][0]) if route in ("arrow", "prechunked", "arrowdict") else []
    try:
        _gb_check(case, ctx, route, rows, keys, shim)
    except Exception as e:  # noqa
        row = rejections.match(rej, e)
        if row:
            raise Rejected(row)
        raise


def _gb_check(case, ctx, route, rows, keys, shim):
    with shim:
        gb = GroupBy(keys, sort=case["sort"])
        chunked0 = gb.key_is_chunked
        prior = case.get("prior", "none")
        if prior != "none" and case["n"] > 0:
            # an earlier (masked) operation on the same object must not disturb the views read below
            m = np.array((case["prior_mask"] * 2)[:case["n"]], dtype=bool)
            if prior == "masked_sum":
                gb.sum(np.arange(case["n"], dtype=float), mask=m)
            elif prior == "masked_size":
                gb.size(mask=m)
            else:
                gb.sum(np.arange(case["n"], dtype=float))
        has_null = any(r is None for r in rows)
        if case["n"] > 0 and bool(gb.has_null_keys) != has_null:
            raise Violation("has_null_keys", f"has_null_keys is {gb.has_null_keys} but {'a' if has_null else 'no'} row has a null key "
                                             f"(key chunked: {gb.key_is_chunked})")
        codes = logical_codes(gb)
        labels = labels_from_index(gb.result_index)
        distinct = {r for r in rows if r is not None}
        nt = len(distinct) >= 2 and (has_null or route not in ("plain",) or len(case.get("keys", [0])) > 1)
        ctx.seen("gb", case, nt, [f"route:{route}", f"prior:{case.get('prior')}", f"chunked:{chunked0}", f"null:{has_null}", f"sort:{case['sort']}",
                                  "kc:" + str(case.get("kc"))] + [f"keytype:{k['t']}" for k in case.get("keys", [])])
        check_partition(rows, codes, labels, "codes")
        if gb.ngroups != len(labels):
            raise Violation("ngroups", f"{gb.ngroups} != {len(labels)}")
        # derived views
        exp_groups = {}
        for i, r in enumerate(rows):
            if r is not None:
                exp_groups.setdefault(r, []).append(i)
        kc_series = gb.key_count
        kc_labels = labels_from_index(kc_series.index)
        kc_map = dict(zip(kc_labels, [int(x) for x in kc_series.to_numpy()]))
        for lab in kc_map:
            if kc_map[lab] != len(exp_groups.get(lab, [])):
                raise Violation("key_count", f"label {lab}: {kc_map[lab]} != {len(exp_groups.get(lab, []))}")
        if sum(kc_map.values()) != sum(len(v) for v in exp_groups.values()):
            raise Violation("key_count:total", f"{sum(kc_map.values())} != number of non-null rows")
        size = gb.size()
        s_labels = labels_from_index(size.index)
        s_map = dict(zip(s_labels, [int(x) for x in size.to_numpy()]))
        if s_map != {k: len(v) for k, v in exp_groups.items()}:
            raise Violation("size", f"size() {s_map} != {({k: len(v) for k, v in exp_groups.items()})}")
        groups = gb.groups
        got_groups = {}
        for k, v in groups.items():
            kk = norm_lab(k)
            kk = kk if isinstance(kk, tuple) else (kk,)
            got_groups[kk] = [int(x) for x in v]
        if got_groups != exp_groups:
            raise Violation("groups", f"groups {got_groups} != expected {exp_groups}")
        # codes after the lazy re-layout triggered by `groups` must still be faithful
        codes2 = logical_codes(gb)
        labels2 = labels_from_index(gb.result_index)
        check_partition(rows, codes2, labels2, "codes-after-groups")


# ---- exhaustive: every short float key sequence over {2,1,3,NaN} on the chunk-wise / monotonic routes ------------------
def gb_enum(tier, variant, replica, nreplicas):
    lmax = 5 if tier == "quick" else 7
    alpha = [2.0, 1.0, 3.0, None]
    i = 0
    for L in range(1, lmax + 1):
        for vals in itertools.product(alpha, repeat=L):
            for kchunks in (1, 2, 3):
                i += 1
                if i % nreplicas != replica:
                    continue
                yield {"route": "chunkwise", "n": L, "sort": variant == "sorted", "keys": [{"t": "float", "vals": list(vals), "name": None}],
                       "kc": "np", "threshold": 1, "key_chunks": kchunks, "prior": "none", "prior_mask": []}


def gb_enum_check(case, ctx):
    rows = key_rows_of(case)
    keys = render_keys(case)
    ctx.evaluations += 1
    ctx.per_sub["gb_enum"] += 1
    distinct = {r for r in rows if r is not None}
    if len(distinct) >= 2:
        ctx.nontrivial_constructed += 1
        if len(ctx.samples) < ctx.sample_cap and case["n"] >= 4 and ctx.evaluations % 211 == 0:
            ctx.samples.append({"sub": "gb_enum", "case": case})
    _gb_check_quiet(case, rows, keys)
    lmax = 5 if ctx.tier == "quick" else 7
    txt = f"GroupBy chunk-wise/monotonic routes: all float key sequences over {{2,1,3,NaN}} of length <= {lmax} x 1..3 chunks x sort on/off"
    if txt not in ctx.exhaustive:
        ctx.exhaustive.append(txt)


def _gb_check_quiet(case, rows, keys):
    class _NoCtx:
        def seen(self, *a, **k):
            pass

    _gb_check(case, _NoCtx(), case["route"], rows, keys, gbops.Shims(threshold=case["threshold"], key_chunks=case["key_chunks"]))


# ---------------------------------------------------------------------------
@st.composite
def f1d_case(draw, variant):
    n = draw(st.sampled_from([0, 1, 2, 3, 5, 8, 13, 24]))
    if variant == "np":
        key = draw(S.key_column(n, types=("int", "float", "str", "bool", "dt", "cat")))
        kc = draw(st.sampled_from(["np", "series", "index"]))
        if key["t"] == "cat":
            kc = draw(st.sampled_from(["cat", "series"]))
    else:
        key = draw(S.key_column(n, types=("int", "float", "str", "dt")))
        kc = draw(st.sampled_from(["pa", "pl", "pd_arrow", "pa_chunked"]))
        if kc == "pa_chunked":
            c = draw(st.integers(0, n))
            key["chunks"] = [c, n - c]
    return {"n": n, "key": key, "kc": kc, "sort": draw(st.booleans())}


def f1d_check(case, ctx):
    key = case["key"]
    obj = data.render_key(key, case["kc"])
    rows = model.key_tuples([data.key_py(key)], case["n"])
    codes, uniques = F.factorize_1d(obj, sort=case["sort"])
    labels = labels_from_index(pd.Index(uniques))
    has_null = any(r is None for r in rows)
    ctx.seen("factorize_1d", case, len({r for r in rows if r is not None}) >= 2 and (has_null or case["kc"] != "np"),
             [f"f1d:kc:{case['kc']}", f"f1d:type:{key['t']}", f"f1d:null:{has_null}"])
    check_partition(rows, np.asarray(codes), labels, "factorize_1d", allow_unused=key["t"] in ("cat", "bool"))


@st.composite
def f2d_case(draw, variant):
    n = draw(st.sampled_from([0, 1, 2, 3, 5, 8, 13, 24]))
    keys = draw(S.keys(n, nkeys=(2, 4), named=False))
    return {"n": n, "keys": keys, "sort": draw(st.booleans()), "use_dict": draw(st.booleans()),
            "parallel": draw(st.booleans()), "kc": draw(st.sampled_from(["np", "series"]))}


def f2d_run(case, ctx, sub="factorize_2d", count=True, classes=()):
    objs = [data.render_key(k, case.get("kc", "np") if k["t"] != "cat" else "np") for k in case["keys"]]
    rows = model.key_tuples([data.key_py(k) for k in case["keys"]], case["n"])
    if case["n"] == 0 and not case.get("allow_empty", True):
        return
    codes, mi = F.factorize_2d(*objs, sort=case["sort"], factorize_in_parallel=case.get("parallel", False),
                               use_dict_limit=0 if case["use_dict"] else 500_000_000)
    labels = labels_from_index(mi)
    if count:
        has_null = any(r is None for r in rows)
        ctx.seen(sub, case, len({r for r in rows if r is not None}) >= 2,
                 [f"f2d:dict:{case['use_dict']}", f"f2d:null:{has_null}", f"f2d:nkeys:{len(case['keys'])}"] + list(classes))
    check_partition(rows, np.asarray(codes), labels, "factorize_2d", allow_unused=False)


def f2d_check(case, ctx):
    f2d_run(case, ctx)


def f2d_enum(tier, variant, replica, nreplicas):
    nmax = 4 if tier == "quick" else 5
    a_opts = ["a", "b", None]
    x_opts = [2.0, 1.0, None]
    i = 0
    for n in range(1, nmax + 1):
        for rows in itertools.product(itertools.product(a_opts, x_opts), repeat=n):
            i += 1
            if i % nreplicas != replica:
                continue
            yield {"n": n, "keys": [{"t": "str", "vals": [r[0] for r in rows], "name": None},
                                    {"t": "float", "vals": [r[1] for r in rows], "name": None}],
                   "sort": False, "use_dict": variant == "dict", "parallel": False, "kc": "np"}


def f2d_enum_check(case, ctx):
    rows = model.key_tuples([data.key_py(k) for k in case["keys"]], case["n"])
    ctx.evaluations += 1
    ctx.per_sub["factorize_2d_enum"] += 1
    if len({r for r in rows if r is not None}) >= 2:
        ctx.nontrivial_constructed += 1
        if len(ctx.samples) < ctx.sample_cap and case["n"] == 4 and ctx.evaluations % 97 == 0:
            ctx.samples.append({"sub": "factorize_2d_enum", "case": case})
    f2d_run(case, ctx, count=False)
    nmax = 4 if ctx.tier == "quick" else 5
    txt = f"factorize_2d: all 2-key tables with 1..{nmax} rows over {{a,b,null}} x {{2.0,1.0,null}}, array and dict tracker"
    if txt not in ctx.exhaustive:
        ctx.exhaustive.append(txt)


# ---------------------------------------------------------------------------
@st.composite
def mono_case(draw, variant):
    n = draw(st.sampled_from([1, 2, 3, 4, 6, 9, 16, 30]))
    shape = draw(st.sampled_from(["sorted", "sorted", "sorted_prefix", "random"]))
    key = draw(S.key_column(n, types=("int", "float", "dt", "str") if variant == "np" else ("int", "float"), shape=shape))
    kc = "np" if variant == "np" else draw(st.sampled_from(["pa_chunked", "series"]))
    if kc == "pa_chunked":
        c = draw(st.integers(0, n))
        key["chunks"] = [c, n - c]
    return {"n": n, "key": key, "kc": kc}


def mono_check(case, ctx):
    key = case["key"]
    vals = data.key_py(key)
    if key["t"] == "str":
        raise Rejected("monotonic_factorization:str-keys-not-numba")
    obj = data.render_key(key, case["kc"])
    n = case["n"]
    # expected cutoff: first row that is null or smaller than its predecessor
    exp_cut = n
    for i in range(n):
        if vals[i] is None or (i > 0 and vals[i] < vals[i - 1]):
            exp_cut = i
            break
    has_null = any(v is None for v in vals)
    ctx.seen("monotonic", case, n >= 3 and (has_null or exp_cut < n), [f"mono:null:{has_null}", f"mono:full:{exp_cut == n}", f"mono:type:{key['t']}"])
    if has_null and case["kc"] == "pa_chunked":
        raise Rejected("pa.ChunkedArray with nulls: zero-copy conversion refused")
    cutoff, codes, labels = F.monotonic_factorization(obj)
    labs = [l[0] for l in labels_from_index(pd.Index(labels))]
    if cutoff > exp_cut:
        raise Violation("monotonic:cutoff", f"cutoff {cutoff} beyond first non-monotonic/null row {exp_cut}: vals {vals}")
    for i in range(cutoff):
        c = int(codes[i])
        if c >= len(labs) or labs[c] != vals[i]:
            raise Violation("monotonic:label", f"row {i} value {vals[i]} code {c} labels {labs}")
    if len(set(labs)) != len(labs):
        raise Violation("monotonic:duplicate", f"labels {labs}")


SUBS = [
    Sub("gb", gb_check, strategy=lambda tier, v: gb_case(v), variants=("a", "b", "c"), examples=(3000, 60000),
        replicas=(3, 8), cost={"a": 150, "b": 200, "c": 150}),
    Sub("gb_enum", gb_enum_check, enumerate=gb_enum, variants=("sorted", "unsorted"), replicas=(2, 8), cost={"sorted": 60, "unsorted": 60}),
    Sub("factorize_1d", f1d_check, strategy=lambda tier, v: f1d_case(v), variants=("np", "arrow"), examples=(1500, 30000),
        replicas=(1, 4), cost={"np": 40, "arrow": 40}),
    Sub("factorize_2d", f2d_check, strategy=lambda tier, v: f2d_case(v), variants=("-",), examples=(2000, 40000),
        replicas=(2, 6), cost={"-": 80}),
    Sub("factorize_2d_enum", f2d_enum_check, enumerate=f2d_enum, variants=("array", "dict"), replicas=(1, 4),
        cost={"array": 30, "dict": 40}),
    Sub("monotonic", mono_check, strategy=lambda tier, v: mono_case(v), variants=("np", "other"), examples=(1500, 30000),
        replicas=(1, 3), cost={"np": 40, "other": 40}),
]
