"""C10 EMA is the normalised exponentially weighted mean, per group (closed form + relations between entry points)."""
import math

import numpy as np
import pandas as pd
from hypothesis import strategies as st

from groupby_lib import GroupBy, ema, ema_grouped

from .. import data, gbops, model, ops
from .. import strategies as S
from ..core import Sub, Violation

RULE = (
    "Hypothesis generates n <= 30 rows, 1-2 keys (null keys allowed), values of dtype float32/64 or int32/64 with null "
    "placements (leading nulls forced in 1/3 of the float cases), optional boolean mask, and a decay spec: alpha in "
    "(0,1] incl. 1.0 and 1e-6, a real halflife in [0.05, 50] (non-integers forced), or a time-weighted spec with "
    "irregular non-decreasing timestamps (post-1970; a labelled pre-1970/epoch class) in unit ns/us/ms/s held in a NumPy array, "
    "Series, DatetimeIndex, timezone-aware Series or polars Series, and a halflife string.  Entry points GroupBy.ema (both layouts), ema_grouped and ema.  Non-trivial = >= 2 groups interleaved, "
    ">= 3 valid rows in one of them and an invalid row between them.  Distinct = case hash."
)
ORACLE = ("closed form sum(w_j x_j)/sum(w_j) over the group's valid rows with w=(1-alpha)^(group rows elapsed) or "
          "0.5^(dt/halflife); invalid rows repeat the previous output, null before the first valid observation; "
          "relations: halflife h == alpha 1-2^(-1/h); single-group grouped == ungrouped from the first valid row; "
          "re-drawing the other groups' values leaves a group's outputs unchanged; group-sorted layout == row layout "
          "regrouped; relative tolerance 1e-9 on sum(w|x|)/sum(w)")
ASSUMPTIONS = ["timestamps are non-decreasing within the whole input (documented precondition of the time-weighted mode)"]

VARIANTS = {"f": ("float64", "float32"), "i": ("int64", "int32")}


@st.composite
def case_strategy(draw, variant):
    n = draw(st.sampled_from([1, 2, 3, 5, 8, 10, 12, 16, 20, 20, 30, 30]))
    if draw(st.booleans()):
        # the shape that matters: two or three groups, randomly interleaved
        keys = [draw(S.key_column(n, types=("int", "float", "str"), max_labels=3, shape="random"))]
    else:
        keys = draw(S.keys(n, nkeys=(1, 2), max_labels=3))
    vspec = draw(S.value_column(n, dtypes=VARIANTS[variant], regime="exact", null_modes=["none", "some", "some", "some"]))
    if vspec["dtype"].startswith("int"):
        vspec["vals"] = [v % 2001 - 1000 for v in vspec["vals"]]
    elif n and draw(st.sampled_from([True, False, False])):
        lead = draw(st.integers(1, max(1, n // 2)))
        vspec["vals"] = [None] * lead + vspec["vals"][lead:]
    mode = draw(st.sampled_from(["alpha", "alpha", "halflife", "halflife", "timed", "timed"]))
    spec = {"mode": mode}
    if mode == "alpha":
        spec["alpha"] = draw(st.sampled_from([1.0, 0.5, 0.125, 1e-6, 0.999, 0.3, 0.0625]))
    elif mode == "halflife":
        spec["halflife"] = draw(st.sampled_from([0.05, 0.5, 2.5, 1.0, 2.0, 7.3, 50.0, 0.75, 13.37]))
    else:
        era = draw(st.sampled_from(["post", "post", "post", "epoch", "pre"]))
        start = {"post": 10**18, "epoch": 0, "pre": -10**18}[era]
        steps = draw(st.lists(st.sampled_from([0, 1, 1, 2, 5, 37, 1000]), min_size=n, max_size=n))
        # unit and container of the timestamps (pandas 3 creates microsecond timestamps by default); the instants are the same
        spec["tunit"] = draw(st.sampled_from(["ns", "ns", "us", "us", "ms", "s"]))
        spec["tcont"] = draw(st.sampled_from(["np", "np", "series", "index", "tz", "pl"]))
        if spec["tcont"] == "pl" and spec["tunit"] == "s":
            spec["tunit"] = "us"
        step_ns = 10**9 if spec["tunit"] == "s" else 10**8
        t, times = start, []
        for s in steps:
            t += s * step_ns
            times.append(t)
        spec["times"] = times
        spec["era"] = era
        spec["halflife"] = draw(st.sampled_from(["1s", "250ms", "3700ms", "100ms"]))
    mask = draw(S.mask_spec(n, kinds=("none", "none", "bool")))
    entry = draw(st.sampled_from(["gb", "gb", "gb_by_groups", "grouped", "ungrouped"]))
    alt = draw(S.value_column(n, dtypes=(vspec["dtype"],), regime="exact"))["vals"]
    if vspec["dtype"].startswith("int"):
        alt = [v % 2001 - 1000 for v in alt]
    return {"n": n, "warm": draw(S.warm()), "keys": keys, "vals": [vspec], "mask": mask, "spec": spec, "entry": entry, "alt_vals": alt, "sort": True,
            "render": {"vc": draw(st.sampled_from(["np", "series"])), "kc": "np", "index": draw(st.sampled_from(["default", "shuffled"])), "mc": "np"}}


def halflife_ns(s):
    return pd.Timedelta(s).value


def kwargs_of(spec, index=None):
    if spec["mode"] == "alpha":
        return {"alpha": spec["alpha"]}
    if spec["mode"] == "halflife":
        return {"halflife": spec["halflife"]}
    t = np.array(spec["times"], dtype="int64").view("M8[ns]")
    unit, cont = spec.get("tunit", "ns"), spec.get("tcont", "np")
    if unit != "ns":
        t = t.astype(f"M8[{unit}]")  # exact: the generated instants are multiples of the unit
    if cont == "series":
        t = pd.Series(t, index=index)
    elif cont == "index":
        t = pd.DatetimeIndex(t)
    elif cont == "tz":
        t = pd.Series(t, index=index).dt.tz_localize("UTC").dt.tz_convert("US/Eastern")
    elif cont == "pl":
        import polars as pl

        t = pl.Series(t)
    return {"halflife": spec["halflife"], "times": t}


def expected(case, labels, pyvals, valid):
    n, spec = case["n"], case["spec"]
    if spec["mode"] == "timed":
        return model.ema_timed(labels, pyvals, valid, n, spec["times"], halflife_ns(spec["halflife"]))
    alpha = spec["alpha"] if spec["mode"] == "alpha" else 1 - 2 ** (-1 / spec["halflife"])
    return model.ema_alpha(labels, pyvals, valid, n, alpha)


def scale(case, labels, pyvals, valid, i):
    """sum(w|x|)/sum(w) for row i (upper bound: max |x| of the group's valid rows so far)"""
    lab = labels[i]
    m = 0.0
    for j in range(i + 1):
        if labels[j] == lab and valid[j]:
            m = max(m, abs(float(pyvals[j])))
    return m


def compare(case, exp, got, labels, pyvals, valid, what, rows=None):
    for i in (rows if rows is not None else range(case["n"])):
        e, g = exp[i], got[i]
        if e == "NULLKEY":
            if g is not None:
                raise Violation(f"{what}:null-key-row", f"row {i} has a null key but output {g!r}")
            continue
        if e is None or g is None:
            if not (e is None and g is None):
                raise Violation(f"{what}:null", f"row {i}: expected {e!r} got {g!r}", extra={"row": i})
            continue
        tol = 1e-9 * scale(case, labels, pyvals, valid, i) + 1e-300
        if not abs(e - g) <= tol:
            raise Violation(f"{what}:value", f"row {i}: expected {e!r} got {g!r}", extra={"row": i})


def check(case, ctx):
    n, spec, entry = case["n"], case["spec"], case["entry"]
    vspec = case["vals"][0]
    keys, vals, mask, index = gbops.render(case)
    labels = gbops.labels_of(case)
    pyvals = data.val_py(vspec)
    sel = set(model.select(n, case["mask"]))
    valid = [pyvals[i] is not None and i in sel for i in range(n)]
    kw = kwargs_of(spec, index if case["render"]["vc"] == "series" else None)
    kw_plain = kwargs_of(spec)  # for the array-level entry points (no pandas index in play)
    # non-triviality
    rows = {}
    for i, l in enumerate(labels):
        if l is not None:
            rows.setdefault(l, []).append(i)
    nt = False
    if len(rows) >= 2:
        for l, ps in rows.items():
            v = [p for p in ps if valid[p]]
            if len(v) >= 3 and any(not valid[p] for p in ps if v[0] < p < v[-1]) and any(labels[i] not in (None, l) for i in range(ps[0], ps[-1] + 1)):
                nt = True
    ctx.seen("ema", case, nt, [f"mode:{spec['mode']}", f"entry:{entry}", f"dtype:{vspec['dtype']}", "mask:" + ("bool" if case["mask"] else "none"),
                               f"era:{spec.get('era', '-')}", f"tunit:{spec.get('tunit', '-')}", f"tcont:{spec.get('tcont', '-')}", f"leading_null:{bool(n) and pyvals[0] is None}"])
    exp = expected(case, labels, pyvals, valid)
    gb = gbops.build(case, keys)
    if entry in ("gb", "gb_by_groups"):
        res = gb.ema(vals[0], mask=mask, **kw)
        got = data.series_values(res)
        if len(got) != n:
            raise Violation("shape", f"{len(got)} rows for {n}")
        compare(case, exp, got, labels, pyvals, valid, f"gb:{spec['mode']}")
        if entry == "gb_by_groups":
            res_g = gbops.build(case, keys, warm=False).ema(vals[0], mask=mask, index_by_groups=True, **(dict(kw) if "times" not in kw else kw))
            sk = gbops.label_sort_key(case)
            order = [p for lab in sorted(rows, key=sk) for p in rows[lab]]
            gvals = data.series_values(res_g)
            if len(gvals) != len(order):
                raise Violation("by-groups:length", f"{len(gvals)} rows, expected {len(order)}")
            for j, p in enumerate(order):
                if not ops.same_values([got[p]], [gvals[j]], 1e-12):
                    raise Violation("by-groups:values", f"position {j} (row {p}): row layout {got[p]!r} group layout {gvals[j]!r}")
            idx = data.index_labels(res_g.index)
            row_labels = data.index_labels(index) if (index is not None and case["render"]["vc"] == "series") else [(i,) for i in range(n)]
            want_idx = [tuple(labels[p]) + tuple(row_labels[p]) for p in order]
            if idx != want_idx:
                raise Violation("by-groups:index", f"{idx[:6]} != {want_idx[:6]}")
        # relation: halflife h == alpha 1 - 2^(-1/h)
        if spec["mode"] == "halflife":
            res_a = gbops.build(case, keys, warm=False).ema(vals[0], mask=mask, alpha=1 - 2 ** (-1 / spec["halflife"]))
            ga = data.series_values(res_a)
            for i in range(n):
                if not ops.same_values([got[i]], [ga[i]], 1e-9):
                    raise Violation("halflife-vs-alpha", f"row {i}: halflife={spec['halflife']} gives {got[i]!r}, equivalent alpha gives {ga[i]!r}")
        # relation: groups are independent - re-draw the values of all other groups
        if rows:
            target = sorted(rows, key=repr)[0]
            c2vals = [v if labels[i] == target else case["alt_vals"][i] for i, v in enumerate(vspec["vals"])]
            v2 = data.render_val(dict(vspec, vals=c2vals), case["render"]["vc"], index if case["render"]["vc"] == "series" else None)
            got2 = data.series_values(gbops.build(case, keys, warm=False).ema(v2, mask=mask, **kw))
            for p in rows[target]:
                if not ops.same_values([got[p]], [got2[p]], 0.0):
                    raise Violation("independence", f"row {p} of group {target} changed from {got[p]!r} to {got2[p]!r} when other groups' values were re-drawn")
    elif entry == "grouped":
        # array-level entry point with explicit codes
        uniq = list(rows)
        code_of = {l: j for j, l in enumerate(uniq)}
        codes = np.array([-1 if l is None else code_of[l] for l in labels], dtype=np.int64)
        m = None if case["mask"] is None else np.array(case["mask"]["vals"], dtype=bool)
        res = ema_grouped(codes, len(uniq), data.val_numpy(vspec), mask=m, **kw_plain)
        got = data.series_values(pd.Series(np.asarray(res)))
        compare(case, exp, got, labels, pyvals, valid, f"grouped:{spec['mode']}")
    else:
        # ungrouped: the whole series is one group; equality with the grouped entry from the first valid row on
        if case["mask"] is not None:
            valid1 = [pyvals[i] is not None for i in range(n)]
        else:
            valid1 = valid
        one = [(0,)] * n
        case1 = dict(case, mask=None)
        exp1 = expected(case1, one, pyvals, valid1)
        res = ema(data.val_numpy(vspec), **kw_plain)
        got = data.series_values(pd.Series(np.asarray(res)))
        first = next((i for i in range(n) if valid1[i]), None)
        if first is not None:
            compare(case1, exp1, got, one, pyvals, valid1, f"ungrouped:{spec['mode']}", rows=range(first, n))
            resg = ema_grouped(np.zeros(n, dtype=np.int64), 1, data.val_numpy(vspec), **kw_plain)
            gg = data.series_values(pd.Series(np.asarray(resg)))
            for i in range(first, n):
                if not ops.same_values([got[i]], [gg[i]], 1e-9):
                    raise Violation("grouped-vs-ungrouped", f"row {i}: ema {got[i]!r} ema_grouped(single group) {gg[i]!r}")


SUBS = [
    Sub("ema", check, strategy=lambda tier, v: case_strategy(v), variants=tuple(VARIANTS), examples=(24000, 320000),
        replicas=(8, 16), cost={v: 400 for v in VARIANTS}),
]
