"""Owning the schedule of util.parallel_map from the harness (DESIGN 3.4).

parallel_map looks up `concurrent.futures.ThreadPoolExecutor` and `concurrent.futures.as_completed`
through the module at call time, so both can be substituted without touching the repository:
  * as_completed -> waits for all futures, then yields them in a generated permutation (gather order);
  * ThreadPoolExecutor -> subclass whose submit() gates the tasks so that they *execute* one after
    another in a second generated permutation (falls back to free running after a timeout, so it
    can never deadlock).  Deterministic, sleep-free, shrinkable."""
import concurrent.futures as cf
import threading

_REAL_EXECUTOR = cf.ThreadPoolExecutor
_REAL_AS_COMPLETED = cf.as_completed


class Schedule:
    def __init__(self, gather=None, execute=None):
        self.gather = list(gather) if gather else None
        self.execute = list(execute) if execute else None
        self.stats = {"maps": 0, "tasks": 0, "max_tasks": 0, "gather_orders": set(), "exec_timeouts": 0}

    def _order(self, perm, m):
        if not perm:
            return list(range(m))
        return sorted(range(m), key=lambda i: (perm[i % len(perm)], -i))

    def __enter__(self):
        sched = self

        def as_completed(fs, timeout=None):
            fs = list(fs)
            # all tasks of this map have been submitted: release the execution gate
            for f in fs[:1]:
                ex = getattr(f, "_gate_ex", None)
                if ex is not None:
                    with ex._cv:
                        ex._closed = True
                        # more tasks than workers: gating could starve the pool, so let them run freely
                        ex._free = ex._n > ex._max_workers
                        ex._cv.notify_all()
            cf.wait(fs)
            order = sched._order(sched.gather, len(fs))
            sched.stats["maps"] += 1
            sched.stats["tasks"] += len(fs)
            sched.stats["max_tasks"] = max(sched.stats["max_tasks"], len(fs))
            sched.stats["gather_orders"].add(tuple(order))
            for i in order:
                yield fs[i]

        class GatedExecutor(_REAL_EXECUTOR):
            def __init__(self, *a, **k):
                super().__init__(*a, **k)
                self._n = 0
                self._cv = threading.Condition()
                self._done = set()
                self._closed = False
                self._free = False

            def submit(self, fn, *args, **kwargs):
                i = self._n
                self._n += 1
                if not sched.execute:
                    return super().submit(fn, *args, **kwargs)
                ex = self

                def gated(*a, **k):
                    # task i may start once every task ranked before it (among those submitted) has finished
                    with ex._cv:
                        # wait until submission is complete and every task ranked before this one has
                        # finished - bounded wait, so it can never deadlock
                        ok = ex._cv.wait_for(lambda: ex._closed and ready_strict(), timeout=2.0)
                        if not ok:
                            sched.stats["exec_timeouts"] += 1
                    try:
                        return fn(*a, **k)
                    finally:
                        with ex._cv:
                            ex._done.add(i)
                            ex._cv.notify_all()

                def ready_strict():
                    if ex._free:
                        return True
                    order = sched._order(sched.execute, ex._n)
                    before = order[:order.index(i)]
                    return all(j in ex._done for j in before)

                fut = super().submit(gated, *args, **kwargs)
                fut._gate_ex = ex
                return fut

            def shutdown(self, wait=True, **k):
                with self._cv:
                    self._closed = True
                    self._cv.notify_all()
                return super().shutdown(wait=wait, **k)

        self._as_completed = as_completed
        self._executor = GatedExecutor
        cf.as_completed = as_completed
        cf.ThreadPoolExecutor = GatedExecutor
        return self

    def __exit__(self, *a):
        cf.as_completed = _REAL_AS_COMPLETED
        cf.ThreadPoolExecutor = _REAL_EXECUTOR
        return False
