"""Property-based testing / fuzzing machinery for eoincondron/groupby-lib (see DESIGN.md)."""
