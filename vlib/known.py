"""Signatures (predicates over case + observed violation) of the findings listed in known_findings.json.

A predicate never mutes a property wholesale: it recognises one specific failing input class."""

PREDICATES = {}


def predicate(key):
    def deco(f):
        PREDICATES[key] = f
        return f

    return deco
