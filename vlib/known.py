"""Signatures (predicates over case + observed violation) of the findings listed in known_findings.json.

A predicate never mutes a property wholesale: it recognises one specific failing input class."""

PREDICATES = {}


def predicate(key):
    def deco(f):
        PREDICATES[key] = f
        return f

    return deco


def _temporal(vspec):
    d = vspec["dtype"]
    return d.startswith(("M8", "m8", "tz:"))


@predicate("temporal-mean-int64-overflow")
def temporal_mean_overflow(sub, case, v):
    """GroupBy.mean of datetime/timedelta values whose exact integer group sum exceeds int64:
    the library sums the int64 views before dividing, so the sum wraps (e.g. 8 x 2020-01-01 in ns)."""
    if not v.kind.startswith("value:mean"):
        return False
    vs = case["vals"][0]
    if not _temporal(vs):
        return False
    ps = v.extra.get("positions")
    if ps is None:
        return False
    s = sum(vs["vals"][p] for p in ps if vs["vals"][p] is not None)
    return abs(s) > 2**63 - 1


@predicate("ema-alpha-decays-on-masked-rows")
def ema_alpha_masked(sub, case, v):
    """GroupBy.ema(alpha=/halflife=, no times) applies the per-row decay on masked rows too, so with an unselected
    row between two selected rows of one group the result differs from the run on the pre-filtered data."""
    return v.kind == "rel1:ema:row" and case.get("op") == "ema" and "times" not in case.get("kw", {}) and bool(v.extra.get("ema_gap"))


@predicate("cumsum-noskipna-timedelta-nat-wraps")
def cumsum_noskipna_timedelta(sub, case, v):
    """cumsum(skip_na=False) of timedelta64 values: the non-skipping reducer adds the int64 views, so after a NaT
    the running sum is int64-min plus later values (wraps, e.g. NaT + NaT = 0) instead of staying null."""
    if v.kind != "gb:sum" or case.get("op") != "sum" or case.get("skip_na", True):
        return False
    vs = case["vals"][0]
    if not vs["dtype"].startswith("m8"):
        return False
    row = v.extra.get("row")
    if row is None:
        return False
    from . import gbops

    labels = gbops.labels_of(case)
    lab = labels[row]
    # an earlier (or the same) row of the group holds a NaT
    return any(labels[i] == lab and vs["vals"][i] is None for i in range(row + 1))


@predicate("nullable-int-with-nulls-to-float64")
def nullable_int_float(sub, case, v):
    """Integer value columns that contain nulls (pandas nullable, Arrow-backed pandas, polars) are converted to float64:
    selections lose the integer dtype and values above 2^53 are rounded (silently)."""
    # only the dtype change and the pure float64 rounding of a value; wrong values, missing labels etc. are NOT covered
    return sub == "int_with_nulls" and v.kind.startswith(("intnull:dtype", "intnull:inexact")) and any(x is None for x in case["vals"][0]["vals"])
