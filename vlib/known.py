"""Signatures (predicates over case + observed violation) of the findings listed in known_findings.json.

A predicate never mutes a property wholesale: it recognises one specific failing input class."""

PREDICATES = {}


def predicate(key):
    def deco(f):
        PREDICATES[key] = f
        return f

    return deco


def _temporal(vspec):
    d = vspec["dtype"]
    return d.startswith(("M8", "m8", "tz:"))


@predicate("temporal-mean-int64-overflow")
def temporal_mean_overflow(sub, case, v):
    """GroupBy.mean of datetime/timedelta values whose exact integer group sum exceeds int64:
    the library sums the int64 views before dividing, so the sum wraps (e.g. 8 x 2020-01-01 in ns)."""
    if not v.kind.startswith("value:mean"):
        return False
    vs = case["vals"][0]
    if not _temporal(vs):
        return False
    ps = v.extra.get("positions")
    if ps is None:
        return False
    s = sum(vs["vals"][p] for p in ps if vs["vals"][p] is not None)
    return abs(s) > 2**63 - 1


@predicate("ema-alpha-decays-on-masked-rows")
def ema_alpha_masked(sub, case, v):
    """GroupBy.ema(alpha=/halflife=, no times) applies the per-row decay on masked rows too, so with an unselected
    row between two selected rows of one group the result differs from the run on the pre-filtered data."""
    return v.kind == "rel1:ema:row" and case.get("op") == "ema" and "times" not in case.get("kw", {}) and bool(v.extra.get("ema_gap"))
