"""Harness-side monitors of documented kernel preconditions (no change to the repository).

`numba.reduce_array_pair(x, y, reducer, counts, y_counts)` is documented to take arrays of equal length and loops
over `len(x)` inside a `parallel=True` kernel, where numba performs no bounds checking: a caller that hands over a
shorter `y` / `counts` / `y_counts` makes the kernel read past the end of a buffer, and the result then depends on
whatever lies behind it in memory.  Such a call is undefined behaviour that no output comparison can detect
reliably, so the harness wraps the function (it is looked up through the module at call time) and turns a call that
breaks the precondition into a violation of the running case.
"""
import numpy as np

from .core import Violation


def install():
    import groupby_lib.groupby.numba as nf

    if getattr(nf.reduce_array_pair, "_verif_wrapped", False):
        return
    orig = nf.reduce_array_pair

    def reduce_array_pair(x, y, *args, **kwargs):
        # signature-agnostic: whatever further arrays are handed over (counts, y_counts, ...) are indexed with range(len(x))
        n = len(x)
        named = [("y", y)] + [(f"arg{i + 2}", a) for i, a in enumerate(args)] + list(kwargs.items())
        bad = [(name, len(a)) for name, a in named if isinstance(a, np.ndarray) and a.ndim == 1 and len(a) < n]
        if bad:
            raise Violation("kernel-contract:reduce_array_pair-out-of-bounds",
                            f"reduce_array_pair loops over len(x)={n} but " + ", ".join(f"len({b})={k}" for b, k in bad) +
                            ": the merge of per-chunk results reads past the end of a buffer")
        return orig(x, y, *args, **kwargs)

    reduce_array_pair._verif_wrapped = True
    reduce_array_pair.__wrapped__ = orig
    nf.reduce_array_pair = reduce_array_pair
