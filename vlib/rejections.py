"""Fixed table of input classes the library refuses *by type alone* with an explicit error
(DESIGN 3.2).  An exception is tolerated only if the case matches a row AND the exception type
matches; anything else that raises is a violation.  The table is code, never learned at run time."""
import pyarrow as pa

ARROW = ("pa", "pa_chunked", "pd_arrow", "pd_arrow_chunked", "pl")
RAW_ARROW = ("pa", "pa_chunked")
CHUNKED = ("pa_chunked", "pd_arrow_chunked")


def _has_null(spec):
    return any(v is None for v in spec["vals"])


def key_rows(kc, spec):
    """Rejection rows applicable to a key column rendered in container kc."""
    t = spec["t"]
    rows = []
    if kc in CHUNKED and t == "str":
        rows.append(("key:chunked-arrow-strings:no-zero-copy", (pa.ArrowInvalid, pa.ArrowNotImplementedError)))
    if kc in CHUNKED and _has_null(spec):
        rows.append(("key:chunked-arrow-with-nulls:no-zero-copy", (pa.ArrowInvalid,)))
    if kc in ARROW and t == "dt" and _has_null(spec):
        rows.append(("key:arrow-temporal-with-nulls:no-zero-copy", (pa.ArrowInvalid,)))
    if kc in RAW_ARROW and t == "dt":
        rows.append(("key:raw-arrow-timestamp:type-not-interpretable", (TypeError, AttributeError)))
    if kc in CHUNKED and t == "bool":
        rows.append(("key:chunked-arrow-bool:bit-packed", (pa.ArrowInvalid, TypeError)))
    return rows


def val_rows(vc, spec):
    dtype = spec["dtype"]
    temporal = dtype.startswith(("M8", "m8", "tz:"))
    rows = []
    if vc in RAW_ARROW and _has_null(spec):
        rows.append(("val:raw-arrow-with-nulls:no-zero-copy", (pa.ArrowInvalid,)))
    if vc in CHUNKED and _has_null(spec):
        rows.append(("val:chunked-arrow-with-nulls:no-zero-copy", (pa.ArrowInvalid,)))
    if vc in ARROW and dtype == "bool":
        rows.append(("val:arrow-bool:bit-packed", (pa.ArrowInvalid, TypeError)))
    if vc in RAW_ARROW and temporal:
        rows.append(("val:raw-arrow-temporal:type-not-interpretable", (TypeError, AttributeError)))
    if vc in ARROW and temporal and _has_null(spec):
        rows.append(("val:arrow-temporal-with-nulls:no-zero-copy", (pa.ArrowInvalid,)))
    return rows


def collection_rows(family, vcs):
    rows = []
    if family == "dict" and "pl" in vcs and any(c != "pl" for c in vcs):
        rows.append(("val:mixture-of-polars-and-other-containers", (TypeError,)))
    return rows


def match(rows, exc):
    for name, types in rows:
        if isinstance(exc, types):
            return name
    return None
