"""Registry of public GroupBy operations: how to call them, which masks they accept, how to
normalise their output.  Shared by the metamorphic / differential / stateful properties."""
import math

import numpy as np
import pandas as pd
import polars as pl
from hypothesis import strategies as st

from . import data
from .core import Violation

ALL_MASKS = ("none", "bool", "slice", "pos")
BOOL_ONLY = ("none", "bool")
NO_MASK = ("none",)


class Op:
    def __init__(self, name, kind, call, masks=ALL_MASKS, kw=None, needs_values=True, float_tol=False,
                 value_kinds="fiubmM", two_values=False):
        self.name = name
        self.kind = kind  # red | row | sel | other
        self.call = call
        self.masks = masks
        self.kw = kw  # strategy factory: (draw, n) -> dict
        self.needs_values = needs_values
        self.float_tol = float_tol
        self.value_kinds = value_kinds
        self.two_values = two_values


def _red(name, **extra):
    def call(gb, v, m, kw):
        return getattr(gb, name)(v, mask=m, **kw)

    return call


OPS = {}


def reg(op):
    OPS[op.name] = op


reg(Op("size", "red", lambda gb, v, m, kw: gb.size(mask=m, **kw), needs_values=False))
for _n in ("count", "min", "max", "first", "last"):
    reg(Op(_n, "red", _red(_n)))
reg(Op("sum", "red", _red("sum"), float_tol=True, value_kinds="fiubm"))
reg(Op("mean", "red", _red("mean"), float_tol=True))
reg(Op("var", "red", _red("var"), float_tol=True, kw=lambda draw, n: {"ddof": draw(st.sampled_from([0, 1]))}, value_kinds="fiub"))
reg(Op("std", "red", _red("std"), float_tol=True, kw=lambda draw, n: {"ddof": draw(st.sampled_from([0, 1]))}, value_kinds="fiub"))
reg(Op("median", "red", lambda gb, v, m, kw: gb.median(v, mask=m), masks=BOOL_ONLY, float_tol=True, value_kinds="fiu"))
reg(Op("quantile", "red", lambda gb, v, m, kw: gb.quantile(v, q=kw["q"], mask=m), masks=BOOL_ONLY, float_tol=True,
       kw=lambda draw, n: {"q": draw(st.sampled_from([[0.5], [0.25, 0.75], [0.0, 1.0, 0.1]]))}, value_kinds="fiu"))
for _n in ("sum", "mean", "min", "max", "count", "first", "last"):
    reg(Op(f"{_n}_transform", "row", (lambda nm: lambda gb, v, m, kw: getattr(gb, nm)(v, mask=m, transform=True))(_n),
           float_tol=_n in ("sum", "mean"), value_kinds="fiubm" if _n == "sum" else "fiubmM"))
reg(Op("median_transform", "row", lambda gb, v, m, kw: gb.median(v, mask=m, transform=True), masks=BOOL_ONLY, float_tol=True, value_kinds="fiu"))
reg(Op("apply_max_transform", "row", lambda gb, v, m, kw: gb.apply(v, np.max, mask=m, transform=True), masks=BOOL_ONLY, value_kinds="fi"))
reg(Op("size_transform", "row", lambda gb, v, m, kw: gb.size(mask=m, transform=True), needs_values=False))
for _n in ("cumsum", "cummin", "cummax"):
    reg(Op(_n, "row", (lambda nm: lambda gb, v, m, kw: getattr(gb, nm)(v, mask=m, **kw))(_n), masks=BOOL_ONLY,
           kw=lambda draw, n: {"skip_na": draw(st.sampled_from([True, True, False]))},
           value_kinds="fiubm" if _n == "cumsum" else "fiubmM", float_tol=_n == "cumsum"))
reg(Op("cumcount", "row", lambda gb, v, m, kw: gb.cumcount(mask=m), masks=BOOL_ONLY, needs_values=False))


def _win(draw, n):
    w = draw(st.integers(1, 5))
    mp = draw(st.one_of(st.none(), st.integers(1, w)))
    return {"window": w, "min_periods": mp}


for _n in ("rolling_sum", "rolling_mean", "rolling_min", "rolling_max"):
    reg(Op(_n, "row", (lambda nm: lambda gb, v, m, kw: getattr(gb, nm)(v, mask=m, **kw))(_n), masks=BOOL_ONLY, kw=_win,
           float_tol=_n in ("rolling_sum", "rolling_mean"), value_kinds="fiu" if _n in ("rolling_sum", "rolling_mean") else "fiumM"))
for _n in ("shift", "diff"):
    reg(Op(_n, "row", (lambda nm: lambda gb, v, m, kw: getattr(gb, nm)(v, mask=m, **kw))(_n), masks=BOOL_ONLY,
           kw=lambda draw, n: {"window": draw(st.integers(1, 4))}, value_kinds="fiumM"))
reg(Op("ema", "row", lambda gb, v, m, kw: gb.ema(v, mask=m, **kw), masks=BOOL_ONLY, float_tol=True, value_kinds="fi",
       kw=lambda draw, n: draw(st.sampled_from([{"alpha": 0.5}, {"alpha": 0.125}, {"halflife": 2.0}, {"alpha": 1.0}]))))


def _timed_kw(draw, n):
    steps = draw(st.lists(st.sampled_from([0, 1, 1, 2, 5, 37]), min_size=n, max_size=n))
    t, times = 10**18, []
    for s_ in steps:
        t += s_ * 10**8
        times.append(t)
    return {"times": times, "halflife": draw(st.sampled_from(["1s", "250ms", "3700ms"]))}


reg(Op("ema_timed", "row", lambda gb, v, m, kw: gb.ema(v, mask=m, halflife=kw["halflife"],
                                                       times=np.array(kw["times"], dtype="int64").view("M8[ns]")),
       masks=BOOL_ONLY, float_tol=True, value_kinds="fi", kw=_timed_kw))
ROW_KW = ("times", "vals2")  # keyword arguments that are row-aligned lists (must be filtered with the rows)
for _n in ("head", "tail"):
    reg(Op(_n, "sel", (lambda nm: lambda gb, v, m, kw: getattr(gb, nm)(v, n=kw["n"], keep_input_index=True))(_n), masks=NO_MASK,
           kw=lambda draw, n: {"n": draw(st.integers(0, 4))}))
reg(Op("nth", "sel", lambda gb, v, m, kw: gb.nth(v, n=kw["n"], keep_input_index=True), masks=NO_MASK,
       kw=lambda draw, n: {"n": draw(st.integers(-3, 3))}))
reg(Op("agg_list", "red", lambda gb, v, m, kw: gb.agg(v, agg_func=["sum", "max", "count"], mask=m), float_tol=True, value_kinds="fiu"))

reg(Op("apply_max", "red", lambda gb, v, m, kw: gb.apply(v, np.max, mask=m), masks=BOOL_ONLY, value_kinds="fi"))
def _denominator(v, vals2):
    """ratio() refuses inputs whose null positions differ (documented precondition): the denominator follows the numerator"""
    d = np.array(vals2, dtype="float64")
    d[np.asarray(pd.isna(v))] = np.nan
    return d


reg(Op("ratio", "red", lambda gb, v, m, kw: gb.ratio(v, _denominator(v, kw["vals2"]), mask=m), float_tol=True, value_kinds="fi",
       kw=lambda draw, n: {"vals2": draw(st.lists(st.sampled_from([1.0, 2.0, 4.0, 0.5]), min_size=n, max_size=n))}))

REDUCTIONS = [o for o in OPS.values() if o.kind == "red"]
ROW_OPS = [o for o in OPS.values() if o.kind == "row"]
SEL_OPS = [o for o in OPS.values() if o.kind == "sel"]


def ops_for_kind(vkind, kinds=("red", "row", "sel"), mask_kind="none"):
    return sorted(o.name for o in OPS.values() if o.kind in kinds and vkind in o.value_kinds and mask_kind in o.masks)


# ---------------------------------------------------------------------------
def normalise(res):
    """Any library result -> JSON-like nested structure with python scalars (None = null, temporals int ns)."""
    if isinstance(res, pl.DataFrame):
        return {"type": "pl.DataFrame", "columns": list(res.columns),
                "data": {c: data.series_values(res[c]) for c in res.columns}}
    if isinstance(res, pl.Series):
        return {"type": "pl.Series", "name": res.name, "values": data.series_values(res)}
    if isinstance(res, pd.DataFrame):
        cols = [data.norm_scalar(c) if not isinstance(c, tuple) else tuple(data.norm_scalar(x) for x in c) for c in res.columns]
        return {"type": "pd.DataFrame", "index": data.index_labels(res.index), "index_names": list(res.index.names),
                "columns": cols, "data": [data.series_values(res.iloc[:, i]) for i in range(res.shape[1])]}
    if isinstance(res, pd.Series):
        return {"type": "pd.Series", "index": data.index_labels(res.index), "index_names": list(res.index.names),
                "name": res.name, "values": data.series_values(res), "dtype": str(res.dtype)}
    if isinstance(res, np.ndarray):
        return {"type": "ndarray", "values": data.series_values(pd.Series(res)), "dtype": str(res.dtype)}
    return {"type": type(res).__name__, "repr": repr(res)}


def _num_eq(a, b, tol):
    if a is None or b is None:
        return a is None and b is None
    if isinstance(a, bool) or isinstance(b, bool):
        # a bool and its numeric image (False/0/0.0) are the same value; dtype promotion is not compared here
        return isinstance(a, (bool, int, float)) and isinstance(b, (bool, int, float)) and float(a) == float(b)
    if isinstance(a, (int, float)) and isinstance(b, (int, float)):
        if a == b:
            return True
        if not tol:
            return False
        if isinstance(a, float) and isinstance(b, float) and (math.isinf(a) or math.isinf(b)):
            return a == b
        return abs(a - b) <= tol * max(1.0, abs(a), abs(b))
    return a == b


def same_values(xs, ys, tol):
    return len(xs) == len(ys) and all(_num_eq(a, b, tol) for a, b in zip(xs, ys))


def compare_norm(a, b, tol=0.0, what="", check_names=True, ignore_dtype=True):
    """Raise Violation when two normalised results differ (labels/shape exact, numbers within rel tol)."""
    if a["type"] != b["type"]:
        raise Violation(f"{what}:container", f"{a['type']} vs {b['type']}")
    t = a["type"]
    if t in ("pd.Series", "pd.DataFrame"):
        if a["index"] != b["index"]:
            raise Violation(f"{what}:index", f"{a['index']} vs {b['index']}")
        if check_names and a["index_names"] != b["index_names"]:
            raise Violation(f"{what}:index-names", f"{a['index_names']} vs {b['index_names']}")
    if t in ("pd.Series", "pl.Series", "ndarray"):
        if not same_values(a["values"], b["values"], tol):
            raise Violation(f"{what}:values", f"{a['values']} vs {b['values']}")
        if check_names and a.get("name") != b.get("name"):
            raise Violation(f"{what}:name", f"{a.get('name')} vs {b.get('name')}")
        if not ignore_dtype and a.get("dtype") != b.get("dtype"):
            raise Violation(f"{what}:dtype", f"{a.get('dtype')} vs {b.get('dtype')}")
    elif t == "pd.DataFrame":
        if a["columns"] != b["columns"]:
            raise Violation(f"{what}:columns", f"{a['columns']} vs {b['columns']}")
        for ca, cb, name in zip(a["data"], b["data"], a["columns"]):
            if not same_values(ca, cb, tol):
                raise Violation(f"{what}:values", f"column {name}: {ca} vs {cb}")
    elif t == "pl.DataFrame":
        if a["columns"] != b["columns"]:
            raise Violation(f"{what}:columns", f"{a['columns']} vs {b['columns']}")
        for c in a["columns"]:
            if not same_values(a["data"][c], b["data"][c], tol):
                raise Violation(f"{what}:values", f"column {c}: {a['data'][c]} vs {b['data'][c]}")
    else:
        if a != b:
            raise Violation(f"{what}:other", f"{a} vs {b}")
