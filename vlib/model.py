"""Naive reference model: pure Python, exact arithmetic, shares no code with groupby-lib
and never calls pandas.groupby.  Values are Python scalars, None = null.

Conventions: ints/bools/temporals (as int) are exact Python ints; floats are Python floats
(the generators keep them dyadic in the exact regime so sums are exact as Fractions).
"""
import math
from fractions import Fraction


def select(n, mask):
    """Row positions selected by a logical mask spec (numpy indexing semantics)."""
    if mask is None:
        return list(range(n))
    k = mask["kind"]
    if k == "bool":
        assert len(mask["vals"]) == n
        return [i for i, b in enumerate(mask["vals"]) if b]
    if k == "slice":
        return list(range(n))[slice(mask.get("start"), mask.get("stop"), mask.get("step"))]
    if k == "pos":
        return [p if p >= 0 else n + p for p in mask["vals"]]
    raise ValueError(k)


def key_tuples(keys, n):
    """keys: list of columns (lists of python values, None null) -> list of tuples or None."""
    out = []
    for i in range(n):
        t = tuple(col[i] for col in keys)
        out.append(None if any(x is None for x in t) else t)
    return out


def group_positions(labels, positions):
    """Ordered dict label -> list of selected positions (labels: per-row hashable or None)."""
    g = {}
    for p in positions:
        lab = labels[p]
        if lab is None:
            continue
        g.setdefault(lab, []).append(p)
    return g


def nonnull(vals):
    return [v for v in vals if v is not None]


def exact_sum(vals):
    vals = nonnull(vals)
    if all(isinstance(v, (int, bool)) for v in vals):
        return sum(int(v) for v in vals)
    return sum((Fraction(v) for v in vals), Fraction(0))


def fsum(vals):
    s = exact_sum(vals)
    return float(s) if isinstance(s, Fraction) else s


REDUCTIONS = ("size", "count", "sum", "mean", "min", "max", "first", "last", "sum_squares")


def reduce(op, vals):
    """vals: the group's selected values in row order (None = null). Returns python scalar or None."""
    nn = nonnull(vals)
    if op == "size":
        return len(vals)
    if op == "count":
        return len(nn)
    if op == "sum":
        return fsum(nn)
    if op == "sum_squares":
        return float(sum((Fraction(v) ** 2 for v in nn), Fraction(0)))
    if op == "mean":
        if not nn:
            return None
        s = exact_sum(nn)
        return s / len(nn) if isinstance(s, Fraction) else Fraction(s, len(nn))
    if not nn:
        return None
    if op == "min":
        return min(nn)
    if op == "max":
        return max(nn)
    if op == "first":
        return nn[0]
    if op == "last":
        return nn[-1]
    raise ValueError(op)


def variance(vals, ddof):
    nn = [Fraction(v) for v in nonnull(vals)]
    n = len(nn)
    if n - ddof <= 0:
        return None
    m = sum(nn, Fraction(0)) / n
    return sum(((x - m) ** 2 for x in nn), Fraction(0)) / (n - ddof)


def abs_sum(vals):
    return float(sum((abs(Fraction(v)) for v in nonnull(vals)), Fraction(0)))


def sq_sum(vals):
    return float(sum((Fraction(v) ** 2 for v in nonnull(vals)), Fraction(0)))


# ---- row-aligned models ----------------------------------------------------
def cumulative(op, labels, values, positions_selected, n, skip_na=True):
    """Per-row prefix reductions.  Returns list (len n) of python scalars / None / 'NULLKEY'.

    Semantics of the library as stated in C08: unselected rows (boolean mask False) pass the
    group's current accumulator through (None before the group's first selected row)."""
    sel = set(positions_selected)
    state = {}
    out = [None] * n
    for i in range(n):
        lab = labels[i]
        if lab is None:
            out[i] = "NULLKEY"
            continue
        st = state.setdefault(lab, {"vals": [], "rows": 0, "poisoned": False, "started": False})
        if i in sel:
            st["started"] = True
            st["rows"] += 1
            v = values[i]
            if v is None and not skip_na:
                st["poisoned"] = True
            st["vals"].append(v)
        if not st["started"]:
            out[i] = "UNSTARTED"
            continue
        if op == "count":
            out[i] = st["rows"] - 1
        elif st["poisoned"]:
            out[i] = None
        else:
            nn = nonnull(st["vals"])
            if op == "sum":
                out[i] = fsum(nn) if nn else "EMPTY"
            elif op == "min":
                out[i] = min(nn) if nn else None
            elif op == "max":
                out[i] = max(nn) if nn else None
    return out


def rolling(op, labels, values, selected, n, window, min_periods=None):
    """Sliding window over the last `window` selected rows of the group (nulls occupy slots)."""
    if min_periods is None:
        min_periods = window
    sel = set(selected)
    hist = {}
    out = [None] * n
    for i in range(n):
        lab = labels[i]
        if lab is None or i not in sel:
            continue
        h = hist.setdefault(lab, [])
        h.append(values[i])
        w = h[-window:]
        nn = nonnull(w)
        if op in ("shift", "diff"):
            if len(h) > window:
                prev = h[-window - 1]
                if op == "shift":
                    out[i] = prev
                else:
                    out[i] = None if (prev is None or values[i] is None) else values[i] - prev
            continue
        if len(nn) >= min_periods and nn:
            if op == "sum":
                out[i] = fsum(nn)
            elif op == "mean":
                s = exact_sum(nn)
                out[i] = float(Fraction(s) / len(nn))
            elif op == "min":
                out[i] = min(nn)
            elif op == "max":
                out[i] = max(nn)
        elif len(nn) >= min_periods and op == "sum":
            out[i] = 0.0
    return out


def ema_alpha(labels, values, valid, n, alpha):
    """Closed form: weight (1-alpha)^(group rows elapsed).  valid[i]: value non-null and selected."""
    out = [None] * n
    hist = {}
    beta = 1.0 - alpha
    for i in range(n):
        lab = labels[i]
        if lab is None:
            out[i] = "NULLKEY"
            continue
        h = hist.setdefault(lab, {"rows": 0, "obs": [], "last": None})
        if valid[i]:
            h["obs"].append((h["rows"], values[i]))
            num = sum(beta ** (h["rows"] - r) * x for r, x in h["obs"])
            den = sum(beta ** (h["rows"] - r) for r, x in h["obs"])
            h["last"] = num / den
        out[i] = h["last"]
        h["rows"] += 1
    return out


def ema_timed(labels, values, valid, n, times, halflife):
    out = [None] * n
    hist = {}
    for i in range(n):
        lab = labels[i]
        if lab is None:
            out[i] = "NULLKEY"
            continue
        h = hist.setdefault(lab, {"obs": [], "last": None})
        if valid[i]:
            h["obs"].append((times[i], values[i]))
            ws = [0.5 ** ((times[i] - t) / halflife) for t, x in h["obs"]]
            num = sum(w * x for w, (t, x) in zip(ws, h["obs"]))
            den = sum(ws)
            h["last"] = num / den
        out[i] = h["last"]
    return out


def close(a, b, rel=1e-9, abs_=0.0):
    if a is None or b is None:
        return a is None and b is None
    if isinstance(a, float) and math.isnan(a):
        return isinstance(b, float) and math.isnan(b)
    if a == b:
        return True
    return abs(a - b) <= max(abs_, rel * max(abs(a), abs(b)))
