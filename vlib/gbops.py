"""Shared helpers for properties exercising the public GroupBy API."""
import math
from fractions import Fraction

import numpy as np
import pandas as pd
import polars as pl

from groupby_lib import GroupBy
from groupby_lib.groupby import core as gcore

from . import data, model
from .core import Violation

EPS64 = 2.0 ** -52
EPS32 = 2.0 ** -23
REDUCTIONS8 = ("size", "count", "sum", "mean", "min", "max", "first", "last")


def render(case):
    """-> (key_objects list, value_objects list, mask_object, index)"""
    n = case["n"]
    r = case.get("render", {})
    index = data.make_index(r.get("index"), n)
    kc = r.get("kc", "np")
    vc = r.get("vc", "np")
    keys = []
    for i, ks in enumerate(case["keys"]):
        c = kc[i] if isinstance(kc, list) else kc
        if ks["t"] == "cat" and c == "list":
            c = "np"
        keys.append(data.render_key(ks, c, index if c.startswith("series") or c.startswith("pd_") else None))
    vals = []
    for i, vs in enumerate(case.get("vals", [])):
        c = vc[i] if isinstance(vc, list) else vc
        vals.append(data.render_val(vs, c, index if c.startswith("series") or c.startswith("pd_") or vs["dtype"].startswith("tz:") else None))
    mask = data.render_mask(case.get("mask"), n, r.get("mc", "np"), index)
    return keys, vals, mask, index


def key_arg(case, keys):
    """How the keys are handed to GroupBy: single object, list, dict or DataFrame."""
    how = case.get("render", {}).get("keys_as", "auto")
    if how == "auto":
        return keys[0] if len(keys) == 1 else list(keys)
    if how == "list":
        return list(keys)
    if how == "dict":
        return {(ks.get("name") or f"key{i}"): k for i, (ks, k) in enumerate(zip(case["keys"], keys))}
    if how == "df":
        return pd.DataFrame({(ks.get("name") or f"key{i}"): k for i, (ks, k) in enumerate(zip(case["keys"], keys))})
    raise ValueError(how)


WARM_OPS = ("size_masked", "sum_masked", "groups", "key_count", "median", "cumsum", "sum_transform", "head", "max_masked_pos")


def warm_up(gb, ops_, n):
    """Earlier calls on the same grouping object (public operations on values that do not depend on the case): they fill the
    object's caches and may re-organise its key representation.  What the examined call returns must not depend on them."""
    if not n:
        return
    i = np.arange(n)
    for w in ops_:
        if w == "size_masked":
            gb.size(mask=(i % 3) != 1)
        elif w == "sum_masked":
            gb.sum(i.astype(float), mask=(i % 2) == 0)
        elif w == "max_masked_pos":
            gb.max(i.astype(float), mask=np.array([n - 1, 0], dtype=np.int64))
        elif w == "groups":
            gb.groups
        elif w == "key_count":
            gb.key_count
        elif w == "median":
            gb.median(np.zeros(n))
        elif w == "cumsum":
            gb.cumsum(np.zeros(n))
        elif w == "sum_transform":
            gb.sum(np.zeros(n), transform=True)
        elif w == "head":
            gb.head(i, 1, keep_input_index=True)
        else:
            raise ValueError(w)


def build(case, keys=None, warm=True):
    if keys is None:
        keys = render(case)[0]
    kw = {}
    if "sort" in case:
        kw["sort"] = case["sort"]
    gb = GroupBy(key_arg(case, keys), **kw)
    if warm and case.get("warm"):
        warm_up(gb, case["warm"], case["n"])
    return gb


def call(gb, op, values, mask=None, **kw):
    if op == "size":
        return gb.size(mask=mask, **kw)
    return getattr(gb, op)(values, mask=mask, **kw)


# ---------------------------------------------------------------------------
# model side
def labels_of(case):
    cols = [data.key_py(k) for k in case["keys"]]
    return model.key_tuples(cols, case["n"])


def label_sort_key(case):
    ks = [data.sort_key_for(k) for k in case["keys"]]
    return lambda lab: tuple(f(x) for f, x in zip(ks, lab))


def model_groups(case, mask="case"):
    labels = labels_of(case)
    m = case.get("mask") if mask == "case" else mask
    pos = model.select(case["n"], m)
    return labels, pos, model.group_positions(labels, pos)


def expected_reduction(case, op, vspec, groups):
    vals = data.val_py(vspec) if vspec is not None else [0] * case["n"]
    out = {}
    for lab, ps in groups.items():
        out[lab] = model.reduce(op, [vals[p] for p in ps])
    return out


def unit_ns(vspec):
    dtype = vspec["dtype"]
    if dtype.startswith("tz:"):
        return data.UNIT_NS[dtype.split(":")[2]]
    dt = np.dtype(dtype)
    return data.UNIT_NS[np.datetime_data(dt)[0]] if dt.kind in "mM" else 1


def value_matches(op, vspec, exp, got, gvals):
    """Tolerance policy of DESIGN 3.3. gvals: the group's selected python values."""
    kind = data.val_kind(vspec) if vspec is not None else "i"
    if exp is None or got is None:
        return exp is None and got is None
    if op in ("size", "count"):
        return int(got) == int(exp) and float(got) == int(got)
    if op in ("min", "max", "first", "last"):
        if kind == "b":
            return bool(got) == bool(exp)
        return got == exp
    nn = [v for v in gvals if v is not None]
    n = len(nn)
    if op == "sum":
        if kind in "iubm":
            return got == exp
        eps = EPS32 if vspec["dtype"] == "float32" else EPS64
        bound = 4 * (n + 1) * eps * float(sum(abs(Fraction(v)) for v in nn))
        return abs(Fraction(got) - Fraction(exp)) <= Fraction(bound) if math.isfinite(got) else False
    if op == "mean":
        e = Fraction(exp)
        if kind in "mM":
            # integer division (< 1 unit) or a float64 quotient (the library switches to float
            # division when some group has count 0): floating-point rounding of the mean
            return abs(Fraction(got) - e) <= unit_ns(vspec) + 2 * EPS64 * abs(float(e))
        if not math.isfinite(got):
            return False
        eps = EPS32 if vspec["dtype"] == "float32" else EPS64
        bound = 4 * (n + 2) * eps * float(sum(abs(Fraction(v)) for v in nn)) / max(n, 1) + abs(float(e)) * 4 * EPS64
        return abs(Fraction(got) - e) <= Fraction(bound)
    raise ValueError(op)


def result_to_dict(res, what="result"):
    """pd.Series result -> (ordered label list, {label: python value})"""
    if not isinstance(res, pd.Series):
        raise Violation("shape:not-series", f"{what}: expected a pandas Series for 1-D values, got {type(res).__name__}")
    labels = data.index_labels(res.index)
    vals = data.series_values(res)
    if len(set(labels)) != len(labels):
        raise Violation("labels:duplicate", f"{what}: duplicate labels {labels}")
    return labels, dict(zip(labels, vals))


def compare_reduction(case, op, vspec, res, groups, what=""):
    exp = expected_reduction(case, op, vspec, groups)
    labels, got = result_to_dict(res, what)
    missing = [l for l in exp if l not in got]
    extra = [l for l in got if l not in exp]
    if missing or extra:
        raise Violation(f"labels:{op}", f"{what} missing={missing} invented={extra} got={labels}")
    vals = data.val_py(vspec) if vspec is not None else [0] * case["n"]
    for lab, ps in groups.items():
        gv = [vals[p] for p in ps]
        if not value_matches(op, vspec, exp[lab], got[lab], gv):
            raise Violation(f"value:{op}", f"{what} label={lab} expected={exp[lab]!r} got={got[lab]!r} group_values={gv}",
                            extra={"label": list(lab), "positions": list(ps)})
    return labels


# ---------------------------------------------------------------------------
# scaling shims (DESIGN 3.4): harness-side, restored on exit
class Shims:
    """Context manager: chunking threshold, thread/chunk counts."""

    def __init__(self, threshold=None, threads=None, key_chunks=None):
        self.threshold, self.threads, self.key_chunks = threshold, threads, key_chunks
        self.saved = {}

    def __enter__(self):
        if not hasattr(gcore, "THRESHOLD_FOR_CHUNKED_FACTORIZE"):
            from .core import HarnessError

            raise HarnessError("seam THRESHOLD_FOR_CHUNKED_FACTORIZE is gone")
        if self.threshold is not None:
            self.saved["thr"] = gcore.THRESHOLD_FOR_CHUNKED_FACTORIZE
            gcore.THRESHOLD_FOR_CHUNKED_FACTORIZE = self.threshold
        if self.threads is not None:
            self.saved["thrd"] = GroupBy.__dict__["_max_threads_for_numba"]
            t = self.threads
            GroupBy._max_threads_for_numba = property(lambda self_: t)
        if self.key_chunks is not None:
            self.saved["kc"] = GroupBy.__dict__["_n_threads_for_key_factorization"]
            k = self.key_chunks
            GroupBy._n_threads_for_key_factorization = property(lambda self_: k)
        return self

    def __exit__(self, *a):
        if "thr" in self.saved:
            gcore.THRESHOLD_FOR_CHUNKED_FACTORIZE = self.saved["thr"]
        if "thrd" in self.saved:
            GroupBy._max_threads_for_numba = self.saved["thrd"]
        if "kc" in self.saved:
            GroupBy._n_threads_for_key_factorization = self.saved["kc"]
        return False
