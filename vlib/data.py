"""Logical datasets -> concrete containers, and results -> normalised python values.

A logical column is a dict with python values (None = null):
  key:   {"t": int|float|str|bool|dt|cat, "vals": [...], "name": str|None, "cats": [...], "ordered": bool, "unit": "ns"}
  value: {"dtype": float64|float32|int64|...|bool|M8[ns]|M8[s]|m8[ns]|tz:<zone>:<unit>, "vals": [...], "name": ...}
Temporal python values are ints counted in the column's unit.
"""
import math

import numpy as np
import pandas as pd
import polars as pl
import pyarrow as pa

MIN_INT = np.iinfo(np.int64).min
UNIT_NS = {"ns": 1, "us": 10**3, "ms": 10**6, "s": 10**9}


# ---------------------------------------------------------------------------
# indexes
def make_index(kind, n):
    if kind in (None, "default"):
        return None
    if kind == "range5":
        return pd.RangeIndex(5, 5 + n)
    if kind == "shuffled":
        return pd.Index([(i * 7 + 3) % max(n, 1) + (i * 7 + 3) // max(n, 1) * n for i in range(n)][::-1] if n else [], dtype="int64")
    if kind == "dup":
        return pd.Index([i // 2 for i in range(n)], dtype="int64")
    if kind == "str":
        return pd.Index([f"r{(n - i) % 7}_{i}" for i in range(n)], dtype=object)
    if kind in ("multi", "multi_intnames"):
        return pd.MultiIndex.from_arrays([[i % 2 for i in range(n)], [f"x{i}" for i in range(n)]], names=["a", "b"])
    raise ValueError(kind)


# ---------------------------------------------------------------------------
# keys
def key_numpy(spec):
    t, vals = spec["t"], spec["vals"]
    if t == "int":
        return np.array(vals, dtype=spec.get("dtype", "int64")) if vals else np.array([], dtype=spec.get("dtype", "int64"))
    if t == "float":
        return np.array([np.nan if v is None else v for v in vals], dtype=spec.get("dtype", "float64"))
    if t == "str":
        a = np.empty(len(vals), dtype=object)
        for i, v in enumerate(vals):
            a[i] = v
        return a
    if t == "bool":
        return np.array(vals, dtype=bool)
    if t == "dt":
        unit = spec.get("unit", "ns")
        return np.array([MIN_INT if v is None else v for v in vals], dtype="int64").view(f"M8[{unit}]")
    if t == "td":
        unit = spec.get("unit", "ns")
        return np.array([MIN_INT if v is None else v for v in vals], dtype="int64").view(f"m8[{unit}]")
    raise ValueError(t)


def render_key(spec, container="np", index=None):
    t = spec["t"]
    name = spec.get("name")
    if t == "cat":
        cats = spec["cats"]
        codes = [-1 if v is None else cats.index(v) for v in spec["vals"]]
        c = pd.Categorical.from_codes(codes, categories=pd.Index(cats, dtype=object if isinstance(cats[0], str) else None) if cats else pd.Index([], dtype=object),
                                      ordered=spec.get("ordered", False))
        if container in ("np", "cat"):
            return c
        if container == "pl":
            return pl.Series(name or "", [None if v is None else str(v) for v in spec["vals"]], dtype=pl.Categorical)
        return pd.Series(c, index=index, name=name)
    arr = key_numpy(spec)
    if container == "np":
        return arr
    if container == "list":
        return list(arr) if t != "str" else list(spec["vals"])
    if container == "series":
        return pd.Series(arr, index=index, name=name)
    if container == "index":
        return pd.Index(arr, name=name)
    if container == "series_str":  # pandas' string dtype
        return pd.Series(spec["vals"], index=index, name=name, dtype="str")
    if container == "series_Int64":
        return pd.Series(spec["vals"], index=index, name=name, dtype="Int64")
    if container in ("pa", "pa_chunked", "pd_arrow", "pd_arrow_chunked", "pl"):
        a = to_arrow_array(spec, key=True)
        return wrap_arrow(a, container, spec.get("chunks"), index, name)
    if container in ("pa_dict", "pa_dict_chunked", "pd_arrow_dict_chunked"):
        # Arrow dictionary arrays; chunks are encoded separately, so their dictionaries differ
        a = to_arrow_array(spec, key=True)
        if container == "pa_dict":
            return a.dictionary_encode()
        b = np.cumsum([0] + list(spec.get("chunks") or [len(a)]))
        chunks = [a.slice(lo, hi - lo).dictionary_encode() for lo, hi in zip(b[:-1], b[1:])]
        ch = pa.chunked_array(chunks, type=chunks[0].type)
        if container == "pa_dict_chunked":
            return ch
        return pd.Series(pd.arrays.ArrowExtensionArray(ch), index=index, name=name)
    raise ValueError(container)


def to_arrow_array(spec, key=False):
    """pyarrow array holding the logical values with proper nulls."""
    t = spec["t"] if key else None
    vals = spec["vals"]
    if key:
        if t == "int":
            return pa.array(vals, type=pa.from_numpy_dtype(np.dtype(spec.get("dtype", "int64"))))
        if t == "float":
            return pa.array(vals, type=pa.float64())
        if t == "str":
            return pa.array(vals, type=pa.large_string() if spec.get("large") else pa.string())
        if t == "bool":
            return pa.array(vals, type=pa.bool_())
        if t == "dt":
            return pa.array(vals, type=pa.timestamp(spec.get("unit", "ns")))
        raise ValueError(t)
    dtype = spec["dtype"]
    if dtype.startswith("tz:"):
        _, zone, unit = dtype.split(":")
        return pa.array(vals, type=pa.timestamp(unit, tz=zone))
    dt = np.dtype(dtype)
    if dt.kind == "M":
        return pa.array(vals, type=pa.timestamp(np.datetime_data(dt)[0]))
    if dt.kind == "m":
        return pa.array(vals, type=pa.duration(np.datetime_data(dt)[0]))
    return pa.array(vals, type=pa.from_numpy_dtype(dt))


def wrap_arrow(a, container, chunks, index, name):
    if chunks:
        b = np.cumsum([0] + list(chunks))
        ch = pa.chunked_array([a.slice(lo, hi - lo) for lo, hi in zip(b[:-1], b[1:])], type=a.type)
    else:
        ch = pa.chunked_array([a])
    if container == "pa":
        return a
    if container == "pa_chunked":
        return ch
    if container == "pd_arrow":
        return pd.Series(pd.arrays.ArrowExtensionArray(pa.chunked_array([a])), index=index, name=name)
    if container == "pd_arrow_chunked":
        return pd.Series(pd.arrays.ArrowExtensionArray(ch), index=index, name=name)
    if container == "pl":
        s = pl.from_arrow(ch if chunks else a)
        return s.alias(name or "")
    raise ValueError(container)


# ---------------------------------------------------------------------------
# values
def val_numpy(spec):
    dtype, vals = spec["dtype"], spec["vals"]
    if dtype.startswith("tz:"):
        _, zone, unit = dtype.split(":")
        return np.array([MIN_INT if v is None else v for v in vals], dtype="int64").view(f"M8[{unit}]")
    dt = np.dtype(dtype)
    if dt.kind == "f":
        return np.array([np.nan if v is None else v for v in vals], dtype=dt)
    if dt.kind in "mM":
        return np.array([MIN_INT if v is None else v for v in vals], dtype="int64").view(dt)
    return np.array(vals, dtype=dt)


def render_val(spec, container="np", index=None):
    name = spec.get("name")
    dtype = spec["dtype"]
    if dtype.startswith("tz:"):
        _, zone, unit = dtype.split(":")
        arr = val_numpy(spec)
        if container in ("pa", "pa_chunked", "pd_arrow", "pd_arrow_chunked", "pl"):
            return wrap_arrow(to_arrow_array(spec), container, spec.get("chunks"), index, name)
        s = pd.Series(arr, index=index, name=name).dt.tz_localize("UTC").dt.tz_convert(zone)
        return s
    if container in ("pa", "pa_chunked", "pd_arrow", "pd_arrow_chunked", "pl") and any(v is None for v in spec["vals"]) \
            and np.dtype(dtype).kind in "iub":
        # integers / booleans with nulls have no NumPy form: go through Arrow directly
        return wrap_arrow(to_arrow_array(spec), container, spec.get("chunks"), index, name)
    if container == "series_nullable" and any(v is None for v in spec["vals"]) and np.dtype(dtype).kind in "iub":
        dt_ = np.dtype(dtype)
        pdt = {"i": "I", "u": "UI"}.get(dt_.kind)
        return pd.Series(spec["vals"], index=index, name=name, dtype=(pdt + f"nt{dt_.itemsize * 8}") if pdt else "boolean")
    arr = val_numpy(spec)
    if container == "np":
        return arr
    if container == "series":
        return pd.Series(arr, index=index, name=name)
    if container == "index":
        return pd.Index(arr, name=name)
    if container == "series_nullable":
        kind = arr.dtype.kind
        if kind in "iu":
            return pd.Series(spec["vals"], index=index, name=name, dtype={"i": "I", "u": "UI"}[kind] + f"nt{arr.dtype.itemsize * 8}")
        if kind == "f":
            return pd.Series(spec["vals"], index=index, name=name, dtype=f"Float{arr.dtype.itemsize * 8}")
        if kind == "b":
            return pd.Series(spec["vals"], index=index, name=name, dtype="boolean")
        return pd.Series(arr, index=index, name=name)
    if container in ("pa", "pa_chunked", "pd_arrow", "pd_arrow_chunked", "pl"):
        return wrap_arrow(to_arrow_array(spec), container, spec.get("chunks"), index, name)
    raise ValueError(container)


def render_mask(mask, n, container="np", index=None):
    if mask is None:
        return None
    k = mask["kind"]
    if k == "bool":
        a = np.array(mask["vals"], dtype=bool)
        if container == "series":
            return pd.Series(a, index=index)
        return a
    if k == "slice":
        return slice(mask.get("start"), mask.get("stop"), mask.get("step"))
    if k == "pos":
        return np.array(mask["vals"], dtype=mask.get("dtype", "int64"))
    raise ValueError(k)


# ---------------------------------------------------------------------------
# normalisation of results
def norm_scalar(x):
    """Library scalar -> python scalar; every null flavour -> None; temporals -> int ns."""
    if x is None or x is pd.NaT or x is pd.NA:
        return None
    if isinstance(x, (bool, np.bool_)):
        return bool(x)
    if isinstance(x, (int, np.integer)):
        return int(x)
    if isinstance(x, (float, np.floating)):
        x = float(x)
        return None if math.isnan(x) else x
    if isinstance(x, pd.Timestamp):
        if x.tzinfo is not None:
            x = x.tz_convert("UTC").tz_localize(None)
        return int(x.as_unit("ns").value)
    if isinstance(x, pd.Timedelta):
        return int(x.as_unit("ns").value)
    if isinstance(x, np.datetime64) or isinstance(x, np.timedelta64):
        if np.isnat(x):
            return None
        unit = np.datetime_data(x.dtype)[0]
        return int(x.astype("int64")) * UNIT_NS[unit]
    if isinstance(x, str):
        return x
    if isinstance(x, tuple):
        return tuple(norm_scalar(y) for y in x)
    try:
        import datetime as _dt

        if isinstance(x, _dt.datetime):
            return norm_scalar(pd.Timestamp(x))
        if isinstance(x, _dt.timedelta):
            return norm_scalar(pd.Timedelta(x))
    except Exception:
        pass
    return x


def series_values(s):
    """pandas / polars Series (or ndarray) -> list of python scalars, None = null, temporals as int ns."""
    if isinstance(s, pl.Series):
        s = s.to_pandas()
    if isinstance(s, np.ndarray):
        s = pd.Series(s)
    if isinstance(s, pd.Index):
        s = s.to_series()
    dt = s.dtype
    if isinstance(dt, pd.DatetimeTZDtype):
        arr = s.dt.tz_convert("UTC").dt.tz_localize(None).to_numpy()
    elif isinstance(dt, np.dtype) and dt.kind in "mM":
        arr = s.to_numpy()
    else:
        return [norm_scalar(x) for x in s.tolist()]
    unit = np.datetime_data(arr.dtype)[0]
    ints = arr.view("int64")
    return [None if x == MIN_INT else int(x) * UNIT_NS[unit] for x in ints]


def index_labels(idx):
    """Result index -> list of label tuples (python scalars; temporals as int ns)."""
    if isinstance(idx, pd.MultiIndex):
        cols = [series_values(idx.get_level_values(i).to_series(index=range(len(idx)))) for i in range(idx.nlevels)]
        return [tuple(c[i] for c in cols) for i in range(len(idx))]
    return [(x,) for x in series_values(idx.to_series(index=range(len(idx))))]


def key_py(spec):
    """Python values of a key column as the model sees them (temporals -> int ns)."""
    t = spec["t"]
    if t in ("dt", "td"):
        m = UNIT_NS[spec.get("unit", "ns")]
        return [None if v is None else v * m for v in spec["vals"]]
    if t == "float":
        return [None if v is None else float(v) for v in spec["vals"]]
    return list(spec["vals"])


def val_py(spec):
    dtype = spec["dtype"]
    if dtype.startswith("tz:"):
        m = UNIT_NS[dtype.split(":")[2]]
        return [None if v is None else v * m for v in spec["vals"]]
    dt = np.dtype(dtype)
    if dt.kind in "mM":
        m = UNIT_NS[np.datetime_data(dt)[0]]
        return [None if v is None else v * m for v in spec["vals"]]
    if dt.kind == "f":
        return [None if v is None else float(np.dtype(dt).type(v)) for v in spec["vals"]]
    return list(spec["vals"])


def val_kind(spec):
    dtype = spec["dtype"]
    if dtype.startswith("tz:"):
        return "M"
    return np.dtype(dtype).kind


def sort_key_for(spec):
    """Ordering of labels of a key column: category position for categoricals, natural otherwise."""
    if spec["t"] == "cat":
        cats = spec["cats"]
        return lambda v: cats.index(v)
    if spec["t"] == "bool":
        return lambda v: int(v)
    return lambda v: v
