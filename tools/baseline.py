#!/venv/bin/python
"""Run the repository's own suite (guard OFF) with a private numba cache and compare with
/root/.vp/BASELINE.json: every stable_pass test must pass.  Exit 0 iff so.

usage: baseline.py [-n WORKERS] [--repo PATH] [pytest args...]"""
import json
import os
import subprocess
import sys
import tempfile
import xml.etree.ElementTree as ET

HERE = os.path.dirname(os.path.abspath(__file__))
sys.path.insert(0, os.path.dirname(HERE))
from vlib import env  # noqa


def main():
    args = sys.argv[1:]
    repo = env.REPO
    workers = None
    extra = []
    i = 0
    while i < len(args):
        if args[i] == "-n":
            workers = args[i + 1]
            i += 2
        elif args[i] == "--repo":
            repo = args[i + 1]
            i += 2
        else:
            extra.append(args[i])
            i += 1
    base = json.load(open("/root/.vp/BASELINE.json"))
    stable = set(base["stable_pass"])
    os.makedirs(os.path.join(env.VERIF, ".cache"), exist_ok=True)
    fd, junit = tempfile.mkstemp(suffix=".xml", dir=os.path.join(env.VERIF, ".cache"))
    os.close(fd)
    e = dict(os.environ)
    e.pop(env.GUARD, None)
    os.environ["VERIF_REPO"] = repo
    e["NUMBA_CACHE_DIR"] = os.path.join(env.cache_root(), "suite-" + env.source_hash(repo))
    e["PYTHONDONTWRITEBYTECODE"] = "1"
    e["PYTHONPATH"] = repo
    cmd = [env.PY, "-m", "pytest", "-q", "-p", "no:cacheprovider", "--timeout=900",
           "--continue-on-collection-errors", f"--junitxml={junit}", "-x" if False else "-ra"]
    if workers:
        cmd += ["-n", str(workers)]
    cmd += extra
    p = subprocess.run(cmd, cwd=repo, env=e, capture_output=True, text=True)
    tail = "\n".join(p.stdout.splitlines()[-3:])
    passed = set()
    failed = set()
    for tc in ET.parse(junit).getroot().iter("testcase"):
        tid = f"{tc.get('classname')}::{tc.get('name')}"
        bad = any(ch.tag in ("failure", "error", "skipped") for ch in tc)
        (failed if bad else passed).add(tid)
    os.unlink(junit)
    missing = sorted(stable - passed)
    if missing and workers and len(missing) <= 50:
        # timing-sensitive tests are flaky under parallel load: re-run those serially before judging
        nodes = []
        for m in missing:
            cls, name = m.split("::", 1)
            parts = cls.split(".")
            for k in range(len(parts), 0, -1):
                f = os.path.join(repo, *parts[:k]) + ".py"
                if os.path.exists(f):
                    nodes.append("::".join([os.path.join(*parts[:k]) + ".py", *parts[k:], name]))
                    break
        fd, junit2 = tempfile.mkstemp(suffix=".xml", dir=os.path.join(env.VERIF, ".cache"))
        os.close(fd)
        cmd2 = [env.PY, "-m", "pytest", "-q", "-p", "no:cacheprovider", "--timeout=900", f"--junitxml={junit2}"] + nodes
        subprocess.run(cmd2, cwd=repo, env=e, capture_output=True, text=True)
        for tc in ET.parse(junit2).getroot().iter("testcase"):
            tid = f"{tc.get('classname')}::{tc.get('name')}"
            if not any(ch.tag in ("failure", "error", "skipped") for ch in tc):
                passed.add(tid)
        os.unlink(junit2)
        print(f"re-ran {len(nodes)} stable tests serially")
        missing = sorted(stable - passed)
    print(tail)
    print(f"stable_pass={len(stable)} passed_now={len(passed)} stable_not_passing={len(missing)} "
          f"newly_passing={len(passed - stable)}")
    for m in missing[:40]:
        print("  NOT PASSING:", m)
    return 0 if not missing else 1


if __name__ == "__main__":
    sys.exit(main())
