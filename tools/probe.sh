#!/bin/bash
# run a python snippet (stdin or file) against the working tree with the harness environment + numba cache shim
source /dev/stdin <<< "$(/venv/bin/python -c "
import sys; sys.path.insert(0,'/verif')
from vlib import env
e=env.worker_env()
for k in ('PYTHONHASHSEED','PYTHONPATH','NUMBA_CACHE_DIR','NUMBA_NUM_THREADS','OMP_NUM_THREADS','PYTHONWARNINGS','VERIF_REPO'):
    print(f'export {k}={e[k]!r}')
" 2>/dev/null)"
f=${1:-/dev/stdin}
cat > /tmp/_probe_body.py < "$f"
/venv/bin/python -c "
import sys; sys.path.insert(0,'/verif')
import vlib.env as e; e.install_in_worker()
exec(compile(open('/tmp/_probe_body.py').read(),'probe','exec'))
" 2>&1 | grep -v condarc
