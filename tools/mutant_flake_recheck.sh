#!/bin/bash
# usage: mutant_flake_recheck.sh <mutant dir> <name>
# When the only stable tests not passing in tools/mutant_suite.sh were the wall-clock assertions of
# test_multi_key_large_data (library faster than pandas; flaky on a loaded machine), re-run exactly those tests alone
# (up to 3 times) in a scratch worktree with the change and update /tmp/mutres/<name>.suite.json.
d=$1; name=$2
log=/tmp/mutres/$name.suite.log
bad=$(grep "NOT PASSING" $log | grep -v "test_multi_key_large_data" | wc -l)
n=$(grep -c "NOT PASSING" $log)
[ "$n" = "0" ] && { echo "$name nothing to re-check"; exit 0; }
[ "$bad" != "0" ] && { echo "$name has other failures"; exit 1; }
wt=/tmp/fl_$name
git -C /repo worktree remove --force $wt 2>/dev/null; rm -rf $wt
git -C /repo worktree add -q --detach $wt HEAD && git -C $wt apply --3way $d/patch.diff 2>/dev/null || exit 2
ids=$(grep "NOT PASSING" $log | sed 's/.*test_multi_key_large_data\[\(.*\)\]/\1/' | sort -u)
ok=1
for id in $ids; do
  pass=0
  for try in 1 2 3; do
    (cd $wt && PYTHONPATH=$wt NUMBA_CACHE_DIR=$wt/.nbfl /venv/bin/python -m pytest -q -p no:cacheprovider "tests/test_groupby/test_core.py::TestGroupBy::test_multi_key_large_data[$id]" >/dev/null 2>&1) && { pass=1; break; }
  done
  [ $pass = 1 ] || ok=0
done
git -C /repo worktree remove --force $wt
if [ $ok = 1 ]; then
  echo "{\"name\": \"$name\", \"suite_rc\": 0, \"summary\": \"$(grep stable_pass $log | tail -1 | sed 's/stable_not_passing=[0-9]*/stable_not_passing=0/') (wall-clock tests test_multi_key_large_data[$(echo $ids | tr ' ' ',')] failed under load in the parallel run and passed when re-run alone)\"}" > /tmp/mutres/$name.suite.json
fi
cat /tmp/mutres/$name.suite.json
