#!/bin/bash
# usage: run_all.sh [tier] [seed] [props...]   -- runs the checks sequentially, writes /tmp/run_all_<tier>_<seed>.log
tier=${1:-quick}; seed=${2:-1}; shift 2
props=${@:-C01 C02 C03 C04 C05 C06 C07 C08 C09 C10 C11 C12 C13 C14 C15 C16 C17 C18 C19 C20}
log=${RUN_ALL_LOG:-/tmp/run_all_${tier}_${seed}.log}; : > $log
cd "$(dirname "$0")/.."
for p in $props; do
  t0=$(date +%s)
  VERIF_SEED=$seed timeout $([ "$tier" = thorough ] && echo 20000 || echo 3000) /venv/bin/python check.py $p --tier $tier $RUN_ALL_ARGS > ${RUN_ALL_OUT:-/tmp}/run_all_$p.out 2>&1; rc=$?
  t1=$(date +%s)
  echo "$p rc=$rc wall=$((t1-t0))s $(grep "^$p tier" ${RUN_ALL_OUT:-/tmp}/run_all_$p.out | cut -c1-160)" >> $log
  grep -E "^VIOLATION|HARNESS-ERROR|^note:" ${RUN_ALL_OUT:-/tmp}/run_all_$p.out | cut -c1-300 >> $log
done
echo DONE >> $log
