#!/bin/bash
# usage: regress_on.sh <repo path> <PROP>   -- run the committed regressions of PROP against another checkout
export VERIF_REPO=$1
source /dev/stdin <<< "$(/venv/bin/python -c "
import sys; sys.path.insert(0,'/verif')
from vlib import env
e=env.worker_env()
for k in ('PYTHONHASHSEED','PYTHONPATH','NUMBA_CACHE_DIR','NUMBA_NUM_THREADS','OMP_NUM_THREADS','PYTHONWARNINGS','VERIF_REPO'):
    print(f'export {k}={e[k]!r}')
" 2>/dev/null)"
rm -f /tmp/reg_$2.json; cd /verif && /venv/bin/python -m vlib.regress $2 regressions/$2 /tmp/reg_$2.json 2>&1 | grep -v "condarc\|Unifying" | tail -3
/venv/bin/python -c "
import json; [print(r['file'],'FAILS' if r.get('failed') else 'passes',r.get('kind'),r.get('known') or '',(r.get('error') or '')[-300:]) for r in json.load(open('/tmp/reg_$2.json'))]" 2>/dev/null
