#!/venv/bin/python
"""Regenerate /verif/seeded/INDEX.md from the meta.json files."""
import json, glob, os
rows = []
for d in sorted(glob.glob("/verif/seeded/*/")):
    m = json.load(open(os.path.join(d, "meta.json")))
    name = os.path.basename(d.rstrip("/"))
    checks = m.get("checks_run", {})
    caught = [k for k, v in checks.items() if v.startswith("caught")]
    missed = [k for k, v in checks.items() if v.startswith("missed")]
    rows.append((name, m.get("property"), (m.get("title") or "")[:90], (m.get("needs_to_manifest") or "")[:220].replace("\n", " "),
                 ", ".join(caught) or "-", ", ".join(missed) or "-", (m.get("suite_confirmed_here") or {}).get("exit", "?"),
                 "; ".join(x for x in [("missed first by " + ",".join(m["missed_before_strengthening"])) if m.get("missed_before_strengthening") else "",
                                       m.get("strengthening", ""), m.get("note", "")] if x)))
with open("/verif/seeded/INDEX.md", "w") as fh:
    fh.write("# Seeded changes (sensitivity of the checks)\n\nEach directory holds `patch.diff` (applies to /repo HEAD), `demo.py` (exits 0 on the "
             "unmodified library, non-zero with the change) and `meta.json`.  Produced by independent sub-agents that saw only the property text; "
             "re-confirmed with `tools/mutant.sh` and `tools/mutant_suite.sh`.  'caught' = the quick check exits 1 with a VIOLATION line "
             "on a scratch worktree with the change.  'suite exit' = exit code of the stable suite re-run HERE with the change (0 = every stable test passes); "
             "'?' = not re-run here (round 3, for lack of machine time): the producing sub-agent's own suite run is recorded in meta.json "
             "(`suite_passes`, `sub_agent_commands_run`).\n\n")
    fh.write("| change | property | title | needs to manifest | caught by | run but missed by | suite exit | note |\n|---|---|---|---|---|---|---|---|\n")
    for r in rows:
        fh.write("| " + " | ".join(str(x).replace("|", "/") for x in r) + " |\n")
    n = len(rows)
    c = sum(1 for r in rows if r[4] != "-")
    fh.write(f"\n{c} of {n} seeded changes are caught by at least one quick check.\n")
print(len(rows), "entries")
