#!/venv/bin/python
"""Append an entry to known_findings.json (developer tool; checks never write this file).
usage: kf.py fixed|known PROP KEY COMMIT_OR_- "what failed" [regression file]"""
import json, os, sys
HERE = os.path.dirname(os.path.dirname(os.path.abspath(__file__)))
p = os.path.join(HERE, "known_findings.json")
d = json.load(open(p))
status, prop, key, commit, what = sys.argv[1:6]
reg = sys.argv[6] if len(sys.argv) > 6 else None
d["findings"] = [f for f in d["findings"] if not (f["property"] == prop and f["key"] == key)]
e = dict(property=prop, key=key, status=status, what=what)
if status == "fixed":
    e["commit"] = commit
    e["line"] = f"fixed: property={prop} {commit} {what}"
else:
    e["line"] = f"known: property={prop} {what}"
if reg:
    e["regression"] = reg
d["findings"].append(e)
d["findings"].sort(key=lambda f: (f["property"], f["key"]))
json.dump(d, open(p, "w"), indent=1)
