#!/bin/bash
# usage: mutant_suite.sh <mutant dir> <name>   -- confirms that the stable suite passes with the seeded change
d=$1; name=$2
wt=/tmp/ms_$name
git -C /repo worktree remove --force $wt 2>/dev/null; rm -rf $wt
git -C /repo worktree add -q --detach $wt HEAD || exit 2
if git -C $wt apply --3way $d/patch.diff 2>/dev/null; then
  /venv/bin/python /verif/tools/baseline.py --repo $wt -n ${SUITE_N:-4} > /tmp/mutres/$name.suite.log 2>&1; rc=$?
  echo "{\"name\": \"$name\", \"suite_rc\": $rc, \"summary\": \"$(grep stable_pass /tmp/mutres/$name.suite.log | tail -1)\"}" > /tmp/mutres/$name.suite.json
else
  echo "{\"name\": \"$name\", \"suite_rc\": -1, \"summary\": \"patch does not apply\"}" > /tmp/mutres/$name.suite.json
fi
git -C /repo worktree remove --force $wt
cat /tmp/mutres/$name.suite.json
