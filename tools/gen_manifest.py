#!/venv/bin/python
"""Regenerate MANIFEST.json from the table below; a property is claimed iff vlib/props/<id>.py exists."""
import json
import os

HERE = os.path.dirname(os.path.dirname(os.path.abspath(__file__)))

T = {
    "C01": ("model-based PBT: Hypothesis-generated logical tables vs exact pure-Python per-group reference",
            "Generated-input search (Hypothesis) over keys x values x masks x 8 reductions against an independent exact reference model; both directions (labels and values); contiguous and scaled-down chunk-wise / sorted-prefix routes, repeated masked calls on one object, real-scale tier with NaN float keys. Bounded sizes; no absence claim.", "4 C01"),
    "C02": ("PBT with validity-predicate oracle over every factorization route + exhaustive small 2-key tables",
            "Every route (plain, categorical, bool, range, arrow, monotonic, partial monotonic, chunk-wise, pre-chunked) is driven with generated keys and the partition predicate is checked in both directions; small 2-key tables enumerated.", "4 C02"),
    "C03": ("differential PBT across execution configurations with harness-owned task schedule + real-scale tier",
            "Same logical case under two configurations (threads, factorization route, chunking, gather/execution permutation) must agree and agree with the model; real 1M-row switch points sampled with structured keys.", "4 C03"),
    "C04": ("exhaustive enumeration of short code/value sequences x splits x masks x kernels vs reference model, plus Hypothesis sampling of longer ones",
            "All sequences up to the stated length are enumerated (a finite space, visited completely) and compared exactly with the per-group definition; longer inputs are sampled.", "4 C04"),
    "C05": ("metamorphic PBT: mask vs pre-filtered run, and non-interference of unselected rows",
            "Two metamorphic relations over generated keys/values/masks (stepped slices, repeated positions) for every maskable operation; contiguous keys with 1-4 worker threads, chunk-wise keys, repeated masked calls through one buffer.", "4 C05"),
    "C06": ("metamorphic PBT: delete / re-draw null-key rows, information-flow in both directions",
            "Generated inputs with nulls in any key position; relation between runs with and without the null-key rows for every operation.", "4 C06"),
    "C07": ("relational PBT: transform=True output vs broadcast of the plain reduction, across key layouts",
            "Relation between two library outputs checked per row for generated inputs, contiguous and chunk-wise key layouts (before/after lazy unification), pandas/polars/numpy containers, single columns and frames of several columns; harness-side monitor of the merge kernel's length precondition.", "4 C07"),
    "C08": ("model-based PBT + exhaustive small interleavings: per-group prefix reductions",
            "Prefix model over generated interleavings, null placements, masks, dtypes and skip_na; small space enumerated.", "4 C08"),
    "C09": ("model-based PBT + exhaustive small interleavings: per-group sliding windows; differential vs group-sorted layout",
            "Sliding-window model over generated interleavings/windows/min_periods/nulls/masks/dtypes; exactness of selections on >2^53 and ns timestamps.", "4 C09"),
    "C10": ("closed-form oracle PBT for EMA + relations between entry points",
            "Closed-form weighted mean per group over generated interleavings, alphas, real halflives, irregular times in ns/us/ms/s units and five containers; alpha/halflife and grouped/ungrouped relations.", "4 C10"),
    "C11": ("predicate PBT on result index/order/shape/names across input shapes",
            "Generated key orders/categoricals/value collections; predicates on labels, order, names, columns; column independence relation.", "4 C11"),
    "C12": ("differential PBT: one logical dataset rendered in two containers/dtypes/chunk layouts",
            "Base NumPy rendering vs arbitrary container rendering for keys and values; exactness/dtype predicates for selections.", "4 C12"),
    "C13": ("stateful (rule-based) PBT: histories on one GroupBy vs fresh object per call",
            "Hypothesis RuleBasedStateMachine over all public operations for each key representation; every call compared with a fresh grouping; invariants on labels/codes.", "4 C13"),
    "C14": ("model-based PBT for margins and crosstab on sparse key combinations",
            "Margins and cross-tab cells/totals compared with the reference model aggregation over generated sparse multi-key inputs.", "4 C14"),
    "C15": ("model-based PBT for head/tail/nth incl. a large-group size tier",
            "Row-selection model over generated interleavings/indexes/n and dedicated group sizes / n around 2^7, 2^8, 2^15 and 2^16 with keys coded in int8 / int16 / int64.", "4 C15"),
    "C16": ("model-based PBT with principled error bound for variance; differential vs NumPy for quantiles/apply; relational for composites",
            "Exact Fraction two-pass variance with a rounding bound, np.median/np.quantile per group, apply/agg/ratio/density relations on generated inputs.", "4 C16"),
    "C17": ("differential PBT: facade vs core engine and vs pandas.groupby",
            "Generated Series/DataFrames with arbitrary indexes; every facade method compared with the core engine and with pandas where pandas offers the operation.", "4 C17"),
    "C18": ("fault-style PBT: every operation x array argument x length delta / index variant must raise iff misaligned",
            "Systematic enumeration of (operation, argument, misalignment, container of the misaligned argument) with generated data; oracle is exception vs return.", "4 C18"),
    "C19": ("stateful PBT with byte-level snapshots and aliasing probes",
            "Inputs snapshotted before/after each generated call; results mutated in place between calls; shares_memory probes; GroupBy histories and the stand-alone functions / array-level kernels.", "4 C19"),
    "C20": ("differential PBT vs NumPy nan-functions; exhaustive small boolean frames; containment predicate for bins",
            "nanops vs NumPy over lengths x threads x null placements (one shard under NUMBA_BOUNDSCHECK=1); boolean frames enumerated; pretty_cut containment predicate.", "4 C20"),
}

NOTE = ("Trusted base: CPython, NumPy scalar arithmetic, fractions, Hypothesis; pandas/pyarrow/polars as containers "
        "(pandas groupby is an oracle only in C17). Checks import groupby_lib from /repo's working tree; numba JIT "
        "cache is private and keyed by a hash of all library sources, so edits are always recompiled.")


def main():
    checks, na = [], []
    for pid, (tech, text, ref) in T.items():
        if os.path.exists(os.path.join(HERE, "vlib", "props", pid.lower() + ".py")):
            checks.append(dict(
                property_id=pid,
                quick_cmd=f"/venv/bin/python check.py {pid} --tier quick",
                thorough_cmd=f"/venv/bin/python check.py {pid} --tier thorough",
                evidence_file=f"evidence/{pid}.json",
                replay_cmd_template=f"/venv/bin/python check.py {pid} --replay {{path}}",
                engine="hypothesis+enumeration",
                level_claimed=dict(category="exploration", text=text, design_ref=ref),
                level_note=NOTE,
                technique=tech,
            ))
        else:
            na.append(dict(property_id=pid, reason="check not built yet in this session (work in progress; design in DESIGN.md section %s)" % ref))
    m = dict(
        version=1,
        setup_cmd="/venv/bin/python -c 'import hypothesis, numba, pandas, polars, pyarrow' || /venv/bin/pip install --no-index --find-links /opt/veriftools/wheels hypothesis",
        hooks=dict(
            guard="GROUPBY_LIB_VERIF",
            enable="checks set GROUPBY_LIB_VERIF=1 in worker processes; the repository contains no guarded hooks (all seams are patched from the harness, DESIGN.md 3.4)",
            baseline_off_cmd="/venv/bin/python /verif/tools/baseline.py",
            source_commits=[],
            add_only=True,
        ),
        engines=[dict(name="hypothesis+enumeration", path="check.py", serves_properties=[c["property_id"] for c in checks],
                      kind_free_text="Hypothesis 6.168 strategies / rule-based state machines, itertools enumeration, 16 fresh worker processes")],
        checks=checks,
        not_applicable=na,
        notes="See DESIGN.md. known_findings.json lists recorded defects (known) and repaired ones (fixed).",
    )
    json.dump(m, open(os.path.join(HERE, "MANIFEST.json"), "w"), indent=1)
    print(f"{len(checks)} checks, {len(na)} not applicable")


if __name__ == "__main__":
    main()
