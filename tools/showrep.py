#!/venv/bin/python
import json, glob, sys
for f in sorted(glob.glob(f'/verif/replays/{sys.argv[1]}/*.json')):
    r = json.load(open(f))
    print('==', f.split('/')[-1], r['sub'], r['kind']); print('   case:', json.dumps(r['case'])[:1500]); print('   msg:', r['message'][:400].replace('\n', ' '))
