#!/venv/bin/python
import json, glob, sys
seen = {}
for f in sorted(glob.glob(f'/verif/replays/{sys.argv[1]}/*.json')):
    r = json.load(open(f))
    k = (r['sub'], r['kind'])
    if k not in seen or len(json.dumps(r['case'])) < len(json.dumps(seen[k][1]['case'])):
        seen[k] = (f, r)
for (sub, kind), (f, r) in seen.items():
    print('==', f.split('/')[-1], sub, kind); print('   case:', json.dumps(r['case'])[:1500]); print('   msg:', r['message'][:400].replace('\n', ' '))
