#!/bin/bash
# usage: mutant.sh <mutant dir with patch.diff demo.py> <name> <PROP> [PROP...]
# Confirms the seeded change (demo fails with it / passes without / baseline suite passes with it) and runs
# the given checks against it in a scratch worktree. Writes /tmp/mutres/<name>.json. Nothing is applied to /repo.
d=$1; name=$2; shift 2; props="$@"
wt=/tmp/mw_$name
mkdir -p /tmp/mutres
git -C /repo worktree remove --force $wt 2>/dev/null; rm -rf $wt
git -C /repo worktree add -q --detach $wt HEAD || exit 2
if ! git -C $wt apply --3way $d/patch.diff 2>/tmp/mutres/$name.apply.log; then
  echo "{\"name\": \"$name\", \"applies\": false}" > /tmp/mutres/$name.json
  git -C /repo worktree remove --force $wt; exit 0
fi
git -C $wt diff HEAD > /tmp/mutres/$name.rebased.diff
run_demo() { (cd $1 && PYTHONPATH=$1 NUMBA_CACHE_DIR=$1/.nbdemo PYTHONWARNINGS=ignore timeout 600 /venv/bin/python $d/demo.py >/tmp/mutres/$name.demo_$2.log 2>&1; echo $?); }
if [ -z "$SKIP_DEMO" ]; then
demo_mut=$(run_demo $wt mut)
# clean HEAD copy for the negative control
ct=/tmp/mw_${name}_clean
git -C /repo worktree remove --force $ct 2>/dev/null; rm -rf $ct
git -C /repo worktree add -q --detach $ct HEAD
demo_clean=$(run_demo $ct clean)
git -C /repo worktree remove --force $ct
else
demo_mut=null; demo_clean=null
fi
suite=skipped
if [ -z "$SKIP_SUITE" ]; then
  /venv/bin/python /verif/tools/baseline.py --repo $wt -n ${SUITE_N:-6} > /tmp/mutres/$name.suite.log 2>&1; suite=$?
fi
res=""
for p in $props; do
  VERIF_REPO=$wt /venv/bin/python /verif/check.py $p --tier quick --no-evidence > /tmp/mutres/$name.$p.log 2>&1
  rc=$?
  # keep replays produced against the mutant
  mkdir -p /tmp/mutres/replays_$name; cp -r /verif/replays/$p /tmp/mutres/replays_$name/ 2>/dev/null
  res="$res \"$p\": $rc,"
done
echo "{\"name\": \"$name\", \"applies\": true, \"demo_with_change\": $demo_mut, \"demo_clean\": $demo_clean, \"suite\": \"$suite\", \"checks\": {${res%,}}}" > /tmp/mutres/$name.json
git -C /repo worktree remove --force $wt
cat /tmp/mutres/$name.json
