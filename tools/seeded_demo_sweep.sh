#!/bin/bash
# usage: seeded_demo_sweep.sh [names...]  -- for every packaged seeded change: does patch.diff still apply to /repo HEAD and does
# demo.py still fail with it?  (later fix: commits can neutralise a change).  Writes /tmp/mutres/demo_sweep.txt.  Nothing touches /repo.
cd /verif/seeded
names=${@:-$(ls -d */ | tr -d /)}
out=/tmp/mutres/demo_sweep.txt; mkdir -p /tmp/mutres; : > $out
one() {
  name=$1; wt=/tmp/ds_$name
  git -C /repo worktree remove --force $wt 2>/dev/null; rm -rf $wt
  git -C /repo worktree add -q --detach $wt HEAD || { echo "$name worktree-failed"; return; }
  if git -C $wt apply --3way /verif/seeded/$name/patch.diff 2>/dev/null; then
    if git -C $wt diff --quiet HEAD; then applies=empty; else applies=yes; fi
    (cd $wt && PYTHONPATH=$wt NUMBA_CACHE_DIR=$wt/.nb PYTHONWARNINGS=ignore timeout 900 /venv/bin/python /verif/seeded/$name/demo.py >/dev/null 2>&1); rc=$?
  else applies=no; rc=-; fi
  git -C /repo worktree remove --force $wt
  echo "$name applies=$applies demo_with_change=$rc"
}
export -f one
printf "%s\n" $names | xargs -P ${SWEEP_P:-4} -I{} bash -c 'one {}' >> $out
sort $out -o $out; cat $out
