#!/venv/bin/python
"""Merge the latest scratch results (/tmp/mutres/<name>.json from tools/mutant.sh, <name>.suite.json from
tools/mutant_suite.sh) into seeded/<name>/meta.json.  Developer tool; new changes are packaged with keep_mutant.py first.
usage: seeded_update.py NAME [NAME...]"""
import json, os, sys

HERE = os.path.dirname(os.path.dirname(os.path.abspath(__file__)))
word = {1: "caught (exit 1, VIOLATION)", 0: "missed (exit 0)"}
for name in sys.argv[1:]:
    mp = os.path.join(HERE, "seeded", name, "meta.json")
    if not os.path.exists(mp):
        print(name, "not packaged")
        continue
    meta = json.load(open(mp))
    try:
        latest = json.load(open(f"/tmp/mutres/{name}.json"))
    except Exception:
        latest = {}
    checks = dict(meta.get("checks_run", {}))
    for k, v in latest.get("checks", {}).items():
        prev = checks.get(k)
        checks[k] = word.get(v, f"exit {v}")
        if prev and prev.startswith("missed") and v == 1:
            meta.setdefault("missed_before_strengthening", [])
            if k not in meta["missed_before_strengthening"]:
                meta["missed_before_strengthening"].append(k)
    meta["checks_run"] = checks
    if latest.get("demo_with_change") is not None:
        meta["demo_with_change_exit"] = latest["demo_with_change"]
        meta["demo_on_clean_head_exit"] = latest["demo_clean"]
    try:
        s = json.load(open(f"/tmp/mutres/{name}.suite.json"))
        meta["suite_confirmed_here"] = {"exit": s["suite_rc"], "summary": s["summary"]}
    except Exception:
        pass
    if os.path.exists(f"/tmp/mutres/{name}.rebased.diff") and os.path.getsize(f"/tmp/mutres/{name}.rebased.diff"):
        # keep the patch applicable to the current HEAD
        cur = open(os.path.join(HERE, "seeded", name, "patch.diff")).read()
        new = open(f"/tmp/mutres/{name}.rebased.diff").read()
        if new != cur:
            if not os.path.exists(os.path.join(HERE, "seeded", name, "patch.as-written.diff")):
                open(os.path.join(HERE, "seeded", name, "patch.as-written.diff"), "w").write(cur)
            open(os.path.join(HERE, "seeded", name, "patch.diff"), "w").write(new)
    json.dump(meta, open(mp, "w"), indent=1)
    print(name, meta["checks_run"], meta.get("suite_confirmed_here"))
