#!/venv/bin/python
"""Package a confirmed seeded change into /verif/seeded/<name>/ (patch.diff, demo.py, meta.json).
usage: keep_mutant.py <src dir> <name> <PROP> [note]

Result sources (developer scratch, not needed by any registered command):
  /tmp/mutres/agg.json            every mutant.sh run so far, merged per check (history, incl. early misses)
  /tmp/mutres/<name>.json         the latest mutant.sh run
  /tmp/mutres/final/<name>.json   the final sweep against the final quick checks
  /tmp/mutres/<name>.suite.json   tools/mutant_suite.sh
"""
import json, os, shutil, sys

src, name, prop = sys.argv[1:4]
note = sys.argv[4] if len(sys.argv) > 4 else ""
HERE = os.path.dirname(os.path.dirname(os.path.abspath(__file__)))
dst = os.path.join(HERE, "seeded", name)
os.makedirs(dst, exist_ok=True)
shutil.copy(os.path.join(src, "patch.diff"), os.path.join(dst, "patch.diff"))
if os.path.exists(os.path.join(src, "patch.orig.diff")):
    # the sub-agent's patch no longer applied after later fix: commits; patch.diff is the same change rebased onto HEAD
    shutil.copy(os.path.join(src, "patch.orig.diff"), os.path.join(dst, "patch.as-written.diff"))
shutil.copy(os.path.join(src, "demo.py"), os.path.join(dst, "demo.py"))
meta = json.load(open(os.path.join(src, "meta.json")))
for k in ("commands_run",):
    if k in meta:
        meta["sub_agent_" + k] = meta.pop(k)


def load(p):
    try:
        return json.load(open(p))
    except Exception:
        return None


agg = (load("/tmp/mutres/agg.json") or {}).get(name, {})
latest = load(f"/tmp/mutres/{name}.json") or {}
final = load(f"/tmp/mutres/final/{name}.json") or {}
hist = dict(agg.get("checks", {}))
now = dict(hist)
now.update(latest.get("checks", {}))
now.update(final.get("checks", {}))
for r in (agg, latest):
    if r.get("demo_with_change") is not None:
        meta["demo_with_change_exit"] = r.get("demo_with_change")
        meta["demo_on_clean_head_exit"] = r.get("demo_clean")
s = load(f"/tmp/mutres/{name}.suite.json")
if s:
    meta["suite_confirmed_here"] = {"exit": s["suite_rc"], "summary": s["summary"]}
meta["property"] = prop
word = {1: "caught (exit 1, VIOLATION)", 0: "missed (exit 0)"}
meta["checks_run"] = {k: word.get(v, f"exit {v}") for k, v in sorted(now.items())}
meta["checks_run_source"] = "final sweep" if final else "latest run"
first_missed = sorted(k for k, v in agg.get("first_checks", hist).items() if v == 0 and now.get(k) == 1)
if first_missed:
    meta["missed_before_strengthening"] = first_missed
if note:
    meta["note"] = note
meta["confirmed_with"] = ["tools/mutant.sh (scratch worktree of /repo HEAD + patch; demo with change / on clean HEAD; quick checks with VERIF_REPO=<worktree>)",
                          "tools/mutant_suite.sh (tools/baseline.py --repo <worktree>: stable suite of BASELINE.json)"]
json.dump(meta, open(os.path.join(dst, "meta.json"), "w"), indent=1)
print(name, meta["checks_run"], meta.get("suite_confirmed_here"), meta.get("missed_before_strengthening"))
