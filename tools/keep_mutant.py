#!/venv/bin/python
"""Package a confirmed seeded change into /verif/seeded/<name>/ (patch.diff, demo.py, meta.json).
usage: keep_mutant.py <src dir> <name> <PROP>"""
import json, os, shutil, sys
src, name, prop = sys.argv[1:4]
dst = f"/verif/seeded/{name}"
os.makedirs(dst, exist_ok=True)
reb = f"/tmp/mutres/{name}.rebased.diff"
shutil.copy(reb if os.path.exists(reb) and os.path.getsize(reb) else os.path.join(src, "patch.diff"), os.path.join(dst, "patch.diff"))
shutil.copy(os.path.join(src, "demo.py"), os.path.join(dst, "demo.py"))
meta = json.load(open(os.path.join(src, "meta.json")))
res = {}
for suffix in ("", "b"):
    p = f"/tmp/mutres/{name}{suffix}.json"
    if os.path.exists(p):
        r = json.load(open(p))
        res.update(r.get("checks", {}))
        meta["demo_with_change_exit"] = r.get("demo_with_change")
        meta["demo_on_clean_head_exit"] = r.get("demo_clean")
sp = f"/tmp/mutres/{name}.suite.json"
if os.path.exists(sp):
    s = json.load(open(sp))
    meta["suite_confirmed_here"] = {"exit": s["suite_rc"], "summary": s["summary"]}
meta["property"] = prop
meta["checks_run"] = {k: ("caught (exit 1, VIOLATION)" if v == 1 else ("missed (exit 0)" if v == 0 else f"exit {v}")) for k, v in res.items()}
meta["confirmed_with"] = ["tools/mutant.sh (scratch worktree of /repo HEAD + patch; demo with change / on clean HEAD; quick checks with VERIF_REPO=<worktree>)",
                          "tools/mutant_suite.sh (tools/baseline.py --repo <worktree>: stable suite of BASELINE.json)"]
json.dump(meta, open(os.path.join(dst, "meta.json"), "w"), indent=1)
print(name, meta["checks_run"], meta.get("suite_confirmed_here"))
